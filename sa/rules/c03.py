"""C03 - conditional blocks run exactly the branch the condition selects."""
import ast

from .common import *
from . import isa
from ..dsl import Ctx as Dsl
from .c01 import operand_kinds, make, kind_str, is_signed_kind

EXPLANATION = (
    "Decided: (R03.1) the comparison opcode table, folded from the "
    "repository's comparison dunders for every operand-kind combination: "
    "the positive jump is the ISA jump of the Python operator, the negated "
    "one its logical complement, the signed pair is chosen iff an operand "
    "is signed, == is the inversion of !=, a bare expression tests != 0, "
    "SimpleComparison.compare indexes the pair with `negative` and adds the "
    "32-bit flag only when both sides are 32 bit; the immediate form of the "
    "jump is selected in target() by the same predicate that made "
    "compare() skip loading the right operand into a register; bit-field "
    "comparisons mask with the field's own mask and only take the "
    "bit-test shortcut against 0. (R03.2) the short-circuit table of "
    "AndOrComparison, folded for the four (is_and, negative) rows with "
    "recording operands, equals Boolean short-circuit evaluation; "
    "InvertComparison negates and delegates. (R03.3) every jump patched "
    "into a placeholder has offset len(opcodes) - origin - 1 with the "
    "origin recorded by the same object. (R03.4) every placeholder "
    "appended is recorded and patched. Declined: the JSET-with-Else "
    "splice, nesting and sequencing of blocks, owners at joins (properties "
    "of emitted sequences).")
ASSUMPTIONS = [
    "eBPF jump semantics per the ISA (jump taken iff condition true)",
    "which comparison object is built depends only on the operand kinds",
]

E = "ebpfcat.ebpf."
PYOP = {"__gt__": ast.Gt, "__ge__": ast.GtE, "__lt__": ast.Lt,
        "__le__": ast.LtE, "__ne__": ast.NotEq}


def run(chk, repo):
    d = Dsl(repo)
    chk.doc("R03.1", "comparison opcode table and its use")
    chk.doc("R03.2", "short-circuit table")
    chk.doc("R03.3", "jump-offset normal form")
    chk.doc("R03.4", "placeholder pairing")
    table(chk, repo, d)
    simple_compare(chk, repo, d)
    bitfields(chk, repo, d)
    shortcircuit(chk, repo, d)
    offsets(chk, repo, d)
    append_only(chk, repo)
    operand_widths(chk, repo)
    # the operands a comparison is given: a byte-swapped signed value has
    # to be sign-extended to the width the comparison asks for (shared with
    # C01)
    from .c01 import r5_endian
    chk.doc("R01.5", "byte-swapped loads are sign-extended again (shared "
                     "with C01)")
    r5_endian(chk, repo, d)
    # the decimal a fixed-point value is compared with: converted to the
    # nearest per-100000 integer (shared with C02)
    from .c02 import rounding
    chk.doc("R02.2", "fixed-point constants are rounded (shared with C02)")
    rounding(chk, repo, d)
    # what a condition compares: the signedness and the width its operands
    # report select the jump (signed / unsigned, 32 / 64 bit) - the operator
    # tables of C01 are necessary conditions here; so is the strictness of
    # the packet-size guards (shared with C05 / C07)
    from .c01 import r2_algebra, r4_formats
    chk.doc("R01.3", "operator signedness table (shared with C01)")
    r2_algebra(chk, repo, d)
    chk.doc("R01.4", "format -> size and width (shared with C01)")
    r4_formats(chk, repo, d)
    from . import ebpfshared as sh
    chk.doc("R03.7", "packet-size guards compare strictly (shared with "
                     "C05 / C07)")
    sh.guard_strictness(chk, repo, "R03.7")
    # the constant a fixed-point value is compared with is scaled in place
    # after it was built; a memory operand is loaded at the width the
    # comparison asks for (shared with C01)
    from .c01 import not_memoised, load_width
    chk.doc("R01.7", "constants are not memoised (shared with C01)")
    not_memoised(chk, repo)
    load_width(chk, repo, "R03.6")


# statements that remove or insert instructions, allowed per function (read
# and confirmed: the JSET inversion of AndComparison moves the Else block in
# front of the jump and re-aims the one jump it moved across)
SPLICE_ALLOWED = {E + "AndComparison.__exit__": 2}


def append_only(chk, repo):
    chk.doc("R03.5", "the instruction list only grows at its end; resolved "
                     "jump offsets stay valid")
    found = {}
    total = 0
    for f in repo.all_functions([repo.module("ebpfcat.ebpf"),
                                 repo.module("ebpfcat.xdp"),
                                 repo.module("ebpfcat.hashmap"),
                                 repo.module("ebpfcat.arraymap")]):
        for n in walk_no_nested(f):
            hit = None
            if isinstance(n, ast.Delete):
                for t in n.targets:
                    if isinstance(t, ast.Subscript) and (
                            dotted(t.value) or "").endswith("opcodes"):
                        hit = n
            elif isinstance(n, ast.Assign):
                for t in n.targets:
                    if isinstance(t, ast.Subscript) and isinstance(
                            t.slice, ast.Slice) and (
                            dotted(t.value) or "").endswith("opcodes"):
                        hit = n
            elif isinstance(n, ast.Call) and isinstance(
                    n.func, ast.Attribute) and n.func.attr in (
                        "insert", "pop", "remove", "clear", "reverse",
                        "sort") and (dotted(n.func.value) or ""
                                     ).endswith("opcodes"):
                hit = n
            if hit is not None:
                total += 1
                found.setdefault(repo.qualname_of(f), []).append(hit)
    chk.floor("R03.5", "splice statements on the instruction list", total, 2)
    for q, hits in sorted(found.items()):
        lim = SPLICE_ALLOWED.get(q, 0)
        for i, h in enumerate(hits):
            ok = i < lim
            chk.ob("R03.5", q, f"`{unparse(h)[:60]}` does not move "
                   f"instructions behind resolved jumps", ok, h,
                   "the confirmed JSET/Else inversion" if ok else
                   "removing or inserting an instruction shifts everything "
                   "after it, while jumps that were already resolved "
                   "across that point (the jump over the with-body, outer "
                   "blocks, short-circuit jumps) keep their old offset and "
                   "now skip or repeat an instruction")


def operand_widths(chk, repo):
    """R03.6: both operands of a jump are valid at the width of the jump"""
    chk.doc("R03.6", "a signed 64-bit comparison sees both operands "
                     "sign-extended to 64 bits")
    sym = E + "SimpleComparison.compare"
    f = repo.func(sym)
    rc = [c for c in calls_in(f) if isinstance(c.func, ast.Attribute)
          and c.func.attr == "calculate" and unparse(c.func.value)
          == "self.right"]
    need(len(rc) == 1 and len(rc[0].args) >= 2,
         f"{sym}: calculation of the right operand not found")
    w = rc[0].args[1]
    ev = Evaluator(repo, f._module)
    mk = repo.cls(E + "Expression")
    fails = []
    for ls in (True, False):
        for ll in (True, False):
            env = {"self": Obj(None, {"left": Obj(mk, {"signed": ls})}),
                   "l_long": ll}
            try:
                got = ev.eval(w, env)
            except (Unknown, Raised) as e:
                raise AnalysisError(f"{sym}: cannot fold the width request "
                                    f"`{unparse(w)}`: {e}")
            if ls and ll and got is not True:
                fails.append(f"signed 64-bit left operand: right operand "
                             f"requested with long={got!r}")
            if not (ls and ll) and got is True:
                fails.append(f"left signed={ls} long={ll}: right operand "
                             f"forced to 64 bit")
    chk.ob("R03.6", sym, "the right operand of a signed 64-bit comparison "
           "is computed in 64 bits", not fails, rc[0],
           "; ".join(fails) or f"`{unparse(w)}`: a narrower signed variable "
           f"on the right is loaded sign-extended to 64 bits, otherwise "
           f"-1 as 'i' would compare as 4294967295")


def table(chk, repo, d):
    exprs, regs, nums = operand_kinds(d)
    nums = [7, -7, 2.5, 1 << 40]
    pairs = [(a, b) for a in exprs + regs for b in exprs] + \
        [(a, n) for a in exprs + regs for n in nums]
    rows = 0
    for dun, op in PYOP.items():
        want = isa.CMP[dun]
        fails = []
        for ka, kb in pairs:
            a = make(d, ka, "a")
            b = make(d, kb, "b") if isinstance(kb, tuple) else kb
            rows += 1
            what = f"{kind_str(ka)} {op.__name__} {kind_str(kb)}"
            try:
                c = d.compare(op, a, b)
            except Raised as e:
                fails.append(f"{what}: raises {e.what}")
                continue
            except Unknown as e:
                raise AnalysisError(f"R03.1: cannot fold {what}: {e}")
            if not (isinstance(c, Obj) and repo.is_subclass(
                    c.ci, E + "SimpleComparison")):
                fails.append(f"{what}: builds {c!r}")
                continue
            opc = c.fields.get("opcode")
            names = tuple(x.canon if isinstance(x, EnumVal) else repr(x)
                          for x in opc) if isinstance(opc, tuple) else opc
            signed = is_signed_kind(ka) or is_signed_kind(kb)
            exp = want[2:] if signed else want[:2]
            if names != exp:
                fails.append(f"{what}: jumps {names}, expected {exp}")
        chk.ob("R03.1", E + "Expression." + dun, f"(positive, negated) jump "
               f"pair for {len(pairs)} operand-kind combinations", not fails,
               repo.cls(E + "Expression").attr_stmts.get(
                   dun, repo.cls(E + "Expression").node),
               "; ".join(fails[:3]) or f"unsigned {want[:2]}, signed "
               f"{want[2:]}: the negated jump is the exact complement")
    chk.floor("R03.1", "comparison rows folded", rows, 400)
    # == is the inversion of !=
    fails = []
    for ka in exprs:
        a = make(d, ka, "a")
        try:
            c = d.compare(ast.Eq, a, 3)
        except (Raised, Unknown) as e:
            fails.append(str(e))
            continue
        ok = isinstance(c, Obj) and repo.is_subclass(
            c.ci, E + "InvertComparison")
        inner = c.fields.get("value") if ok else None
        ok = ok and isinstance(inner, Obj) and tuple(
            x.canon for x in inner.fields.get("opcode", ()))[:2] == (
                "JNE", "JEQ")
        if not ok:
            fails.append(f"{kind_str(ka)} == 3 builds {c!r}")
    chk.ob("R03.1", E + "Expression.__eq__", "== is the inversion of !=",
           not fails, repo.func(E + "Expression.__eq__"),
           "; ".join(fails[:2]) or "InvertComparison(JNE/JEQ)")
    # a bare expression as condition tests != 0
    en = repo.func(E + "Expression.__enter__")
    ok = bool(find("self != 0", en))
    chk.ob("R03.1", E + "Expression.__enter__", "`with expr:` tests expr != "
           "0", ok, en, "truth of an integer")
    # Comparison.__enter__ compares with negative=True (jump away if false)
    ce = repo.func(E + "Comparison.__enter__")
    ok = bool(find("self.compare(True)", ce))
    chk.ob("R03.1", E + "Comparison.__enter__", "a with-block jumps over its "
           "body when the condition is false", ok, ce,
           "compare(negative=True)")
    ji = repo.func(E + "EBPF.jumpIf")
    ok = bool(find("comp.compare(False)", ji))
    chk.ob("R03.1", E + "EBPF.jumpIf", "jumpIf jumps when the condition is "
           "true", ok, ji, "compare(negative=False)")


def simple_compare(chk, repo, d):
    sym = E + "SimpleComparison.compare"
    f = repo.func(sym)
    chk.analysed(sym)
    sel = [s for s in walk_no_nested(f) if isinstance(s, ast.Assign)
           and unparse(s.targets[0]) == "self.opcode"]
    ok = len(sel) == 1 and match("self.opcode[negative]", sel[0].value) \
        is not None
    chk.ob("R03.1", sym, "jump = pair[negative]", ok, sel[0] if sel else f,
           "negative=True selects the complement (second element)")
    # SHORT only when both sides are 32 bit
    shorts = [s for s in walk_no_nested(f) if isinstance(s, ast.AugAssign)
              and match("Opcode.SHORT", s.value) is not None]
    ok = len(shorts) == 1
    if ok:
        facts = path_facts(shorts[0])
        txt = {(unparse(e), t) for e, t in facts}
        ok = ("l_long", False) in txt and ("r_long", False) in txt
    chk.ob("R03.1", sym, "32-bit jump only when both operands are 32 bit",
           ok, shorts[0] if shorts else f, "a 32-bit comparison of a 64-bit "
           "value would ignore its upper half")
    # widening of a 32-bit signed left operand compared with a 64-bit right
    wid = find("self.ebpf.r[self.dst] <<= 32", f, mode="stmt") and find(
        "self.ebpf.sr[self.dst] >>= 32", f, mode="stmt")
    chk.ob("R03.1", sym, "a 32-bit signed left operand is sign-extended "
           "before a 64-bit comparison", bool(wid), f,
           "shift left 32 then arithmetic shift right 32")
    # immediate / register form chosen consistently in compare and target
    # (path conditions, so that the shape of the if/else does not matter)
    loads = [s for s in walk_no_nested(f) if isinstance(s, ast.Assign)
             and any("self.src" in unparse(t) for t in s.targets)]
    need(len(loads) == 1, f"{sym}: register-load branch not found")
    lfacts = [(unparse(e), tr) for e, tr in path_facts(loads[0])]
    need(len(lfacts) == 1, f"{sym}: the register load is guarded by "
         f"{lfacts}, expected one condition")
    ptxt, ptruth = lfacts[0]
    tsym = E + "SimpleComparison.target"
    t = repo.func(tsym)
    chk.analysed(tsym)
    # target(), by abstract execution: which instruction is put into the
    # placeholder for an unconditional jump, a right operand that compare()
    # left as an immediate, and one it loaded into a register
    ok = ptxt == "self.right.small_constant" and ptruth is False
    chk.ob("R03.1", sym, "compare() loads the right operand into a register "
           "iff it is not a small constant", ok, loads[0],
           f"loaded when `{ptxt}` is {ptruth}")
    sc = repo.cls(E + "SimpleComparison")
    ops = d.ev.enum_members(repo.cls(E + "Opcode"))
    bad = []
    rows = 0
    for opn in ("JMP", "JEQ", "JSGT", "JLE"):
        for small in (True, False):
            for origin, total in ((0, 1), (2, 9), (5, 6)):
                for retarget in (False, True):
                    rows += 1
                    op = ops[opn]
                    opcodes = [("old", i) for i in range(total)]
                    if not retarget:
                        opcodes[origin] = None
                    eb = Obj(None, {"opcodes": opcodes,
                                    "owners": {1, 2, 3}})
                    me = Obj(sc, {"ebpf": eb, "opcode": op, "dst": 3,
                                  "src": 5, "origin": origin,
                                  "owners": {2, 3, 4},
                                  "right": Obj(None, {
                                      "small_constant": small,
                                      "value": 77})})
                    tag = (f"{opn}, right operand "
                           f"{'immediate' if small else 'in a register'}, "
                           f"placeholder {origin} of {total}")
                    try:
                        Evaluator(repo, t._module, sc).call_function(
                            t, [me], {"retarget": retarget}, cls=sc)
                    except (Unknown, Raised) as e:
                        raise AnalysisError(f"{tsym}: cannot be evaluated "
                                            f"({tag}): {e}")
                    got = eb.fields["opcodes"][origin]
                    off = total - origin - 1
                    if opn == "JMP":
                        want = (op, 0, 0, off, 0)
                    elif small:
                        want = (op, 3, 0, off, 77)
                    else:
                        try:
                            want = (d.ev.binop(ast.Add, op, ops["REG"]), 3,
                                    5, off, 0)
                        except (Unknown, Raised) as e:
                            raise AnalysisError(f"{tsym}: {e}")
                    rest = [x for i, x in enumerate(eb.fields["opcodes"])
                            if i != origin]
                    if not isinstance(got, tuple) or tuple(got) != want:
                        bad.append(f"{tag}: placeholder becomes {got!r}, "
                                   f"expected {want!r}")
                    elif rest != [("old", i) for i in range(total)
                                  if i != origin]:
                        bad.append(f"{tag}: other instructions change")
    chk.ob("R03.1", tsym, f"register form: jump|X dst, src; immediate form: "
           f"jump dst, imm; distance from the placeholder to the end of the "
           f"program ({rows} cases by abstract execution)", not bad, t,
           "; ".join(bad[:3]) or "immediate form iff compare() did not load "
           "the right operand")


def bitfields(chk, repo, d):
    sym = E + "Memory.__ne__"
    fails = []
    rows = 0
    for fmt in ((0, 1), (5, 1), (3, 4), (0, 8)):
        for v in (0, 1, 3):
            rows += 1
            m = d.memory("m", fmt)
            try:
                c = d.compare(ast.NotEq, m, v)
            except (Raised, Unknown) as e:
                fails.append(f"field {fmt} != {v}: {e}")
                continue
            if not isinstance(c, Obj):
                fails.append(f"field {fmt} != {v}: {c!r}")
                continue
            if repo.is_subclass(c.ci, E + "AndComparison"):
                mask = ((1 << fmt[1]) - 1) << fmt[0]
                right = c.fields.get("right")
                rv = right.fields.get("value") if isinstance(right, Obj) \
                    else right
                left = c.fields.get("left")
                lf = left.fields.get("fmt") if isinstance(left, Obj) else None
                if v != 0:
                    fails.append(f"field {fmt} != {v}: uses the bit test, "
                                 f"which can only compare with 0")
                elif rv != mask or lf != "B":
                    fails.append(f"field {fmt} != 0: tests mask {rv!r} of a "
                                 f"{lf!r} load, expected {mask:#x} of 'B'")
            else:
                left, right = c.fields.get("left"), c.fields.get("right")
                rv = right.fields.get("value") if isinstance(right, Obj) \
                    else right
                if left is not m or rv != v:
                    fails.append(f"field {fmt} != {v}: compares "
                                 f"{left!r} with {rv!r}")
    chk.ob("R03.1", sym, f"bit-field comparisons ({rows} rows)", not fails,
           repo.func(sym), "; ".join(fails[:3]) or "!= 0 is the bit test "
           "with the field's mask; any other value compares the extracted "
           "field")
    # (x & M) compared with a constant: the bit test (JSET: *any* bit of M
    # set) stands for `!= 0` only; every other constant - M itself
    # included - compares the masked value
    fails = []
    rows = 0
    for mask in (1, 6, 0x80, 0xff00):
        for v in (0, 1, mask, mask | 1, 7):
            for op, neg in ((ast.NotEq, False), (ast.Eq, True)):
                rows += 1
                x = d.register("x", True, False, False)
                try:
                    a = d.binop(ast.BitAnd, x, mask)
                    c = d.compare(op, a, v)
                except (Raised, Unknown) as e:
                    fails.append(f"(x & {mask:#x}) {'==' if neg else '!='} "
                                 f"{v}: {e}")
                    continue
                inner = c
                # == is built as the inversion of !=
                while isinstance(inner, Obj) and inner.ci is not None and \
                        repo.is_subclass(inner.ci, E + "InvertComparison"):
                    inner = inner.fields.get("value")
                is_bit = isinstance(inner, Obj) and inner.ci is not None \
                    and repo.is_subclass(inner.ci, E + "AndComparison")
                single = v == mask and bin(mask).count("1") == 1
                if is_bit and v != 0 and not single:
                    fails.append(f"(x & {mask:#x}) "
                                 f"{'==' if neg else '!='} {v:#x} is lowered "
                                 f"to the bit test, which is true as soon as "
                                 f"one bit of the mask is set")
                if not is_bit and v == 0 and not neg:
                    pass        # a plain comparison with 0 is correct too
    chk.ob("R03.1", E + "AndExpression.__ne__", f"masked comparisons "
           f"({rows} rows)", not fails, repo.func(E + "AndExpression.__ne__"),
           "; ".join(fails[:2]) or "only `!= 0` / `== 0` use JSET")
    # ~bit is (bit == 0)
    inv = repo.func(E + "Memory.__invert__")
    ok = bool(find("self == 0", inv))
    chk.ob("R03.1", E + "Memory.__invert__", "~bit is bit == 0", ok, inv,
           "negation of a single bit")


class Rec:
    def __init__(self, name, log):
        self.name, self.log = name, log

    def obj(self):
        def compare(neg):
            self.log.append((self.name, "compare", bool(neg)))

        def target(retarget=False):
            self.log.append((self.name, "target", bool(retarget)))
        return Obj(None, {"compare": ("pyfunc", compare),
                          "target": ("pyfunc", target),
                          "owners": set()})


def shortcircuit(chk, repo, d):
    ev = d.ev
    ao = repo.cls(E + "AndOrComparison")
    fails = []
    for is_and in (True, False):
        for negative in (True, False):
            log = []
            o = Obj(ao, {"left": Rec("L", log).obj(),
                         "right": Rec("R", log).obj(), "is_and": is_and,
                         "ebpf": Obj(None, {"opcodes": [], "owners": set()})})
            try:
                ev.call(ev._dunder(o, "compare"), [negative])
                n1 = len(log)
                ev.call(ev._dunder(o, "target"), [])
            except (Raised, Unknown) as e:
                raise AnalysisError(f"R03.2: cannot fold AndOrComparison "
                                    f"({is_and},{negative}): {e}")
            inline = is_and != negative
            exp = [("L", "compare", is_and), ("R", "compare", negative)]
            if inline:
                exp.append(("L", "target", False))
            exp2 = []
            if not inline:
                exp2.append(("L", "target", False))
            exp2.append(("R", "target", False))
            if log[:n1] != exp or log[n1:] != exp2:
                fails.append(f"is_and={is_and}, negative={negative}: "
                             f"{log[:n1]} / {log[n1:]}, expected {exp} / "
                             f"{exp2}")
    chk.ob("R03.2", E + "AndOrComparison", "short-circuit table (4 rows)",
           not fails, ao.node, "; ".join(fails[:2]) or
           "left is compared with negative=is_and, right with the outer "
           "flag; the left jump lands at the fall-through point iff is_and "
           "!= negative, else at the outer target; exactly one of the two")
    # operators & | ~ build the right objects
    c1 = d.compare(ast.Gt, d.expr("a", False, False), 1)
    c2 = d.compare(ast.Lt, d.expr("b", False, False), 5)
    for op, want in ((ast.BitAnd, True), (ast.BitOr, False)):
        try:
            r = d.binop(op, c1, c2)
            ok = repo.is_subclass(r.ci, E + "AndOrComparison") and \
                r.fields.get("is_and") is want and r.fields.get("left") is c1 \
                and r.fields.get("right") is c2
        except (Raised, Unknown, AttributeError):
            ok = False
        chk.ob("R03.2", E + "Comparison", f"{op.__name__} builds "
               f"AndOrComparison(is_and={want}) of both sides in order", ok,
               repo.cls(E + "Comparison").node, "operands in source order")
    iv = repo.cls(E + "InvertComparison")
    fails = []
    for negative in (True, False):
        log = []
        o = Obj(iv, {"value": Rec("V", log).obj(), "ebpf": d.ebpf})
        try:
            ev.call(ev._dunder(o, "compare"), [negative])
            ev.call(ev._dunder(o, "target"), [True])
        except (Raised, Unknown) as e:
            raise AnalysisError(f"R03.2: InvertComparison: {e}")
        if log != [("V", "compare", not negative), ("V", "target", True)]:
            fails.append(f"negative={negative}: {log}")
    chk.ob("R03.2", E + "InvertComparison", "negates the flag and delegates "
           "the target", not fails, iv.node, "; ".join(fails) or "2 rows")


def offsets(chk, repo, d):
    m = repo.module("ebpfcat.ebpf")
    # placeholder sites
    sites = [c for c in ast.walk(m.tree) if isinstance(c, ast.Call)
             and match("$x.opcodes.append(None)", c) is not None]
    chk.floor("R03.4", "placeholder sites", len(sites), 5)
    for c in sites:
        f = repo.enclosing_function(c)
        sym = repo.qualname_of(f)
        stmts = stmts_of_block(c)
        i = stmts.index(stmt_of(c))
        prev, b = None, None
        for cand in reversed(stmts[:i]):
            if isinstance(cand, ast.Assign) and match(
                    "len($x.opcodes)", cand.value) is not None:
                prev, b = cand, True
                break
            if any(isinstance(x, ast.Call) and isinstance(
                    x.func, ast.Attribute) and x.func.attr in (
                        "append", "calculate", "compare", "target")
                   for x in ast.walk(cand)):
                break  # something may have been emitted in between
        ok = b is not None
        tgt = unparse(prev.targets[0]) if ok else None
        chk.ob("R03.4", sym, f"placeholder index recorded in `{tgt}`", ok, c,
               "the statement before append(None) stores len(opcodes), the "
               "index the placeholder will have")
        if not ok:
            continue
        # some method of the same class (or this function) patches it
        ci = repo.enclosing_class(c)
        attr = tgt.split(".")[-1]
        patched = False
        scope = [ci.node] if ci is not None else [f]
        if ci is not None:
            scope += [x.node for x in repo.subclasses(ci.qualname)]
            scope += [x.node for x in repo.mro(ci)
                      if isinstance(x, ClassInfo)]
        if attr == "origin" and not tgt.startswith("self."):
            # a local that is stored into an attribute afterwards
            nxt = [s for s in stmts[i + 1:] if isinstance(s, ast.Assign)
                   and isinstance(s.value, ast.Name) and s.value.id == tgt]
            if nxt:
                attr = unparse(nxt[0].targets[0]).split(".")[-1]
        for sc in scope:
            for s in ast.walk(sc):
                if isinstance(s, ast.Assign) and any(
                        isinstance(t, ast.Subscript) and unparse(
                            t.value).endswith("opcodes") and unparse(
                                t.slice).endswith(attr)
                        for t in s.targets):
                    patched = True
        if sym.endswith("EBPF.jump"):
            patched = bool(find("comp.origin = len(self.opcodes)", f,
                                mode="stmt"))
        chk.ob("R03.4", sym, f"placeholder `{attr}` is patched by the class",
               patched, c, f"an assignment opcodes[...{attr}] = Instruction "
               f"exists in the class (or a subclass)")
    # patch sites: offset normal form
    patches = []
    for c in ast.walk(m.tree):
        if isinstance(c, ast.Call) and dotted(c.func) == "Instruction" and \
                len(c.args) == 5 and "len(" in unparse(c.args[3]):
            patches.append(c)
    chk.floor("R03.3", "jump patch sites", len(patches), 4)
    for c in patches:
        sym = func_qual(repo, c)
        off = c.args[3]
        b = match("len(self.ebpf.opcodes) - $o - 1", off)
        st = stmt_of(c)
        where = None
        if isinstance(st, ast.Assign):
            for t in st.targets:
                if isinstance(t, ast.Subscript):
                    where = t.slice
        if where is None:
            # inst = Instruction(...); self.ebpf.opcodes[self.origin] = inst
            f = repo.enclosing_function(c)
            for s in walk_no_nested(f):
                if isinstance(s, ast.Assign) and isinstance(
                        s.value, ast.Name) and isinstance(
                            st, ast.Assign) and s.value.id == unparse(
                                st.targets[0]):
                    for t in s.targets:
                        if isinstance(t, ast.Subscript):
                            where = t.slice
        if sym.endswith("AndComparison.__exit__") or sym.endswith(
                "AndComparison.Else"):
            continue  # the JSET splice: declined (see DESIGN.md C03)
        ok = b is not None and where is not None and same(b["o"], where)
        chk.ob("R03.3", sym, f"jump patched at [{unparse(where)}] has offset "
               f"{unparse(off)}", ok, c, "offset = len(opcodes) - origin - 1 "
               "with the origin of the slot that is patched: the jump lands "
               "on the next instruction to be emitted")


def stmts_of_block(node):
    st = stmt_of(node)
    p = st._parent
    for fld in ("body", "orelse", "finalbody"):
        blk = getattr(p, fld, None)
        if isinstance(blk, list) and st in blk:
            return blk
    return [st]

# added rules (appended to the explanation the evidence file carries)
EXPLANATION += (" " + 'Added during the build (DESIGN.md 4.31, second table): SimpleComparison.target by abstract execution on 48 placeholder cases; the rounding rule R02.2 of C02 is shared (decimal constants in comparisons).')
EXPLANATION += (" Added after wave 9: the memo rule for Constant and the load-width rule of C01 are shared (a scaled constant compared as a stale 32-bit immediate; a narrower signed memory operand not extended to the comparison's 64 bits).")
