"""C09 - hash-map variables and Dict entries agree between Python and the
program."""
import ast

from .common import *
from . import ebpfshared as sh

EXPLANATION = (
    "Decided: (R09.1) cell width agreement: the hash map is created with a "
    "1-byte key and an 8-byte value, every Python-side access encodes the "
    "key as pack('B', count) and transfers 8 value bytes, the program side "
    "stores the same count as key; (R09.2) defaults are written through the "
    "descriptor after `loaded` is set; (R09.3) Structure layout has a "
    "single source: Member.__set_name__, folded over offsets and formats, "
    "assigns the running size before advancing it and rejects unaligned "
    "members; Python-side pack_into/unpack_from and program-side fmt_addr "
    "use that offset; key and value areas of a Dict on the stack are "
    "reserved (watermark rule shared with C04) and the map is created with "
    "the structures' sizes; (R09.4) each thin wrapper in bpf.py issues its "
    "own bpf() command number (uapi table), _lookup_elem forwards the "
    "command it is given, iteration starts with a NULL key; (R09.5) an "
    "absent key takes the Else branch of lookup(); (R09.6) fixed-point "
    "symmetry between array- and hash-map descriptors; (R09.7) a computed "
    "value's stack slot stays reserved while its address is in use (shared "
    "with C04 R04.2). Declined: insert/lookup/update/delete histories.")
ASSUMPTIONS = [
    "bpf() command numbers from include/uapi/linux/bpf.h",
    "BPF_MAP_GET_NEXT_KEY with a NULL key returns the first key",
]

H = "ebpfcat.hashmap."
B = "ebpfcat.bpf."
E = "ebpfcat.ebpf."
CMDS = {"create_map": 0, "update_elem": 2, "delete_elem": 3,
        "get_next_key": 4, "prog_load": 5, "obj_pin": 6, "obj_get": 7,
        "prog_test_run": 10}


def run(chk, repo):
    chk.doc("R09.1", "cell width and key agreement")
    chk.doc("R09.2", "defaults")
    chk.doc("R09.3", "Structure layout single source")
    chk.doc("R09.4", "command forwarding in bpf.py")
    chk.doc("R09.5", "absent key => Else")
    chk.doc("R09.6", "fixed-point symmetry")
    chk.doc("R09.7", "stack slots of computed values and Dict areas")
    chk.doc("R09.8", "a map's variable list is per map")
    per_instance_rule(chk, repo, "R09.8", ["ebpfcat.hashmap.HashMap",
                                           "ebpfcat.hashmap.TheDict",
                                           "ebpfcat.hashmap.Dict"],
                      "the variables declared in one map are bound to the "
                      "file descriptor - and written with the defaults - of "
                      "every other map as well")
    cells(chk, repo)
    defaults(chk, repo)
    structures(chk, repo)
    commands(chk, repo)
    lookup_else(chk, repo)
    fixed(chk, repo)
    # what the program reads is the value that was stored: loads of signed
    # formats are sign-extended, also after a byte swap (shared with C01)
    from ..dsl import Ctx as _Dsl
    from . import c01 as _c01
    chk.doc("R01.5", "sign extension of loads and byte-swapped loads (shared "
                     "with C01)")
    _d = _Dsl(repo)
    _c01.r5_signext(chk, repo, _d)
    _c01.r5_endian(chk, repo, _d)
    sh.watermark_rules(chk, repo, "R09.7")
    sh.slot_escape_rule(chk, repo, "R09.7")
    sh.member_symmetry(chk, repo, "R09.3")


def own_cells(chk, repo):
    """HashMap.init / load, by abstract execution on a program with two
    hash maps (and an inherited variable): each map binds its file
    descriptor to its own variables only, and loads its own defaults"""
    hm = repo.cls(H + "HashMap")
    dc = repo.cls(H + "HashGlobalVarDesc")
    ini, ld = hm.methods.get("init"), hm.methods.get("load")
    need(ini is not None and ld is not None, "HashMap.init/load vanished")
    chk.analysed(hm.qualname + ".init", hm.qualname + ".load")

    def desc(n, name, default):
        return Obj(dc, {"count": n, "fmt": "I", "default": default,
                        "name": name})
    a1, a2, b1, b2 = (desc(1, "a1", 11), desc(2, "a2", 22),
                      desc(1, "b1", 33), desc(2, "b2", 44))
    mapA = Obj(hm, {"vars": [a1, a2], "count": 2})
    mapB = Obj(hm, {"vars": [b1, b2], "count": 2})
    bad = []
    for first, second in ((mapA, mapB), (mapB, mapA)):
        cells_ = {n: Obj(None, {"fd": None}) for n in ("a1", "a2", "b1",
                                                      "b2")}
        sets = []
        klass = Obj(None, {"__mro__": (
            Obj(None, {"__dict__": {"a1": a1, "b1": b1, "mA": mapA}}),
            Obj(None, {"__dict__": {"a2": a2, "b2": b2, "mB": mapB}})),
            "__dict__": {"a1": a1, "b1": b1, "a2": a2, "b2": b2}})
        prog = Obj(None, dict(cells_))
        prog.fields["__class__"] = klass
        prog.fields["loaded"] = False
        made = []
        ev = Evaluator(repo, hm.module, hm, funcs={"create_map": (
            "hook", lambda *a, _m=made: _m.append(a) or 100 + len(_m))})
        try:
            ev.call_function(ini, [first, prog, None], cls=hm)
            own = ["a1", "a2"] if first is mapA else ["b1", "b2"]
            other = [n for n in cells_ if n not in own]
            fd1 = cells_[own[0]].fields["fd"]
            if fd1 is None or any(cells_[n].fields["fd"] != fd1
                                  for n in own):
                bad.append(f"init of the map of {own}: descriptors "
                           f"{ {n: c.fields['fd'] for n, c in cells_.items()} }")
            elif any(cells_[n].fields["fd"] is not None for n in other):
                bad.append(f"init of the map of {own} also binds "
                           f"{[n for n in other if cells_[n].fields['fd'] is not None]}"
                           f": variables of another map share its cells")
            ev.call_function(ini, [second, prog, None], cls=hm)
            if cells_[own[0]].fields["fd"] != fd1:
                bad.append(f"init of the other map re-binds {own}")
        except Unknown:
            return      # not executable on the stand-in: the other rules
        except Raised as e:
            bad.append(f"init raises {e.what[:40]}")
    chk.ob("R09.1", hm.qualname + ".init", "a map's file descriptor is bound "
           "to the variables of that map, and to no others (two maps in one "
           "program, by abstract execution)", not bad, ini,
           "; ".join(bad[:2]) or "cells of different maps stay apart")


def cells(chk, repo):
    own_cells(chk, repo)
    hm = repo.cls(H + "HashMap")
    ini = hm.methods.get("init")
    ok = ini is not None and bool(find(
        "create_map(MapType.HASH, 1, 8, self.count)", ini))
    chk.ob("R09.1", hm.qualname + ".init", "map is HASH with key 1, value 8",
           ok, ini or hm.node, "create_map(MapType.HASH, 1, 8, count)")
    d = repo.cls(H + "HashGlobalVarDesc")
    gt, st = d.methods.get("__get__"), d.methods.get("__set__")
    ok = gt is not None and bool(find(
        "lookup_elem(fd, pack('B', self.count), 8)", gt))
    chk.ob("R09.1", d.qualname + ".__get__", "reads 8 bytes under the 1-byte "
           "key `count`", ok, gt or d.node, "lookup_elem(fd, pack('B', "
           "count), 8)")
    ok = gt is not None and bool(find("unpack_from(self.fmt, data)[0]", gt))
    chk.ob("R09.1", d.qualname + ".__get__", "the variable is the prefix of "
           "the 8-byte cell in its own format", ok, gt or d.node,
           "little-endian host: a 4-byte store by the program is the first "
           "4 bytes of the cell")
    ok = st is not None and bool(find(
        "update_elem(fd, pack('B', self.count), pack('q' if "
        "self.fmt.islower() else 'Q', value))", st))
    chk.ob("R09.1", d.qualname + ".__set__", "writes all 8 bytes, signed "
           "formats sign-extended", ok, st or d.node,
           "pack('q' if signed else 'Q', value)")
    for meth in (gt, st):
        if meth is None:
            continue
        fds = find("$i.__dict__[self.name].fd", meth)
        chk.ob("R09.1", d.qualname + "." + meth.name, "uses the fd stored "
               "with this variable", len(fds) >= 1, meth,
               "the map the variable belongs to")
    ga = repo.func(H + "HashGlobalVar.get_address")
    ok = bool(find("self.ebpf.append(Opcode.ST, 10, 0, stack, self.count)",
                   ga)) and bool(find("self.ebpf.get_stack(4)", ga))
    chk.ob("R09.1", H + "HashGlobalVar.get_address", "program-side key: "
           "count stored in a 4-byte stack slot whose first byte is the key",
           ok, ga, "ST W [r10+slot] = count; key_size 1 reads its low byte")
    ok = bool(find("self.ebpf.r1 = self.ebpf.get_fd(self.fd)", ga,
                   mode="stmt"))
    chk.ob("R09.1", H + "HashGlobalVar.get_address", "looks up in the "
           "variable's own map", ok, ga, "r1 = get_fd(self.fd)")
    ok = bool(find("(yield (dst, self.fmt))", ga))
    chk.ob("R09.1", H + "HashGlobalVar.get_address", "accessed with the "
           "descriptor's format", ok, ga, "yield dst, self.fmt")


def defaults(chk, repo):
    hm = repo.cls(H + "HashMap")
    ld = hm.methods.get("load")
    ok = ld is not None and any(
        isinstance(s, ast.For) and match("self.vars", s.iter) is not None
        and bool(find("setattr(ebpf, v.name, "
                      "ebpf.__class__.__dict__[v.name].default)", s))
        for s in walk_no_nested(ld))
    chk.ob("R09.2", hm.qualname + ".load", "every variable gets its default "
           "through its descriptor", ok, ld or hm.node,
           "setattr(ebpf, name, descriptor.default)")
    el = repo.func(E + "EBPF.load")
    chk.analysed(E + "EBPF.load")
    cfg = CFG(el)
    setl = [n for n in cfg.nodes if n.kind == "stmt" and match_stmt(
        "self.loaded = True", n.stmt) is not None]
    lds = [n for n in cfg.nodes if n.expr is not None and find(
        "v.load(self)", n.expr)]
    ok = len(setl) == 1 and len(lds) == 1 and cfg.dominates(setl[0], lds[0])
    chk.ob("R09.2", E + "EBPF.load", "maps' load() runs after `loaded` is "
           "set", ok, el, "so the assignment of the default takes the "
           "user-space branch of the descriptor")


def structures(chk, repo):
    mc = repo.cls(E + "Member")
    sn = mc.methods.get("__set_name__")
    need(sn is not None, "Member.__set_name__ vanished")
    chk.analysed(mc.qualname + ".__set_name__")
    ev = Evaluator(repo, "ebpfcat.ebpf")
    fails = []
    rows = 0
    for fmt in "BHIQbhiqx":
        size = 8 if fmt == "x" else calcsize(fmt)
        for s0 in (0, 1, 2, 3, 4, 6, 8, 12, 16):
            rows += 1
            me = Obj(mc, {"fmt": fmt})
            owner = Obj(None, {"stack": s0})
            try:
                ev.call_function(sn, [me, owner, "m"], cls=mc)
                raised = False
            except Raised as e:
                raised = True
            except Unknown as e:
                raise AnalysisError(f"R09.3: cannot fold Member."
                                    f"__set_name__: {e}")
            if s0 % size:
                if not raised:
                    fails.append(f"fmt {fmt} at offset {s0}: unaligned "
                                 f"member accepted")
                continue
            if raised:
                fails.append(f"fmt {fmt} at offset {s0}: rejected")
                continue
            if me.fields.get("relative_addr") != s0 or \
                    owner.fields["stack"] != s0 + size:
                fails.append(f"fmt {fmt} at offset {s0}: placed at "
                             f"{me.fields.get('relative_addr')}, size "
                             f"becomes {owner.fields['stack']}")
    chk.ob("R09.3", mc.qualname + ".__set_name__", f"members are laid out "
           f"back to back, aligned ({rows} rows)", not fails, sn,
           "; ".join(fails[:3]) or "offset = running size, then the size "
           "grows by the member's size; unaligned members are refused")
    g, s = mc.methods.get("__get__"), mc.methods.get("__set__")
    ok = g is not None and bool(find(
        "unpack_from(self.fmt, instance.data, self.relative_addr)[0]", g))
    chk.ob("R09.3", mc.qualname + ".__get__", "Python side reads at the "
           "member's offset with its format", ok, g or mc.node,
           "unpack_from(fmt, data, relative_addr)")
    ok = s is not None and bool(find(
        "pack_into(self.fmt, instance.data, self.relative_addr, value)", s))
    chk.ob("R09.3", mc.qualname + ".__set__", "Python side writes at the "
           "member's offset with its format", ok, s or mc.node,
           "pack_into(fmt, data, relative_addr, value)")
    fa = mc.methods.get("fmt_addr")
    ok = fa is not None and bool(find("super().fmt_addr(instance)", fa)) \
        and bool(find("(fmt, addr + instance.addr_offset)", fa))
    chk.ob("R09.3", mc.qualname + ".fmt_addr", "program side: same offset "
           "plus the structure's position", ok, fa or mc.node,
           "relative_addr + addr_offset")
    si = repo.func(E + "Structure.__init__")
    ok = bool(find("self.data = bytearray(self.stack)", si, mode="stmt"))
    chk.ob("R09.3", E + "Structure.__init__", "buffer has the structure's "
           "size", ok, si, "bytearray(stack)")
    di = repo.func(H + "Dict.init")
    ok = bool(find("create_map(self.mapType, self.Key.stack, "
                   "self.Value.stack, self.size)", di))
    chk.ob("R09.3", H + "Dict.init", "map key/value sizes are the "
           "structures' sizes", ok, di, "create_map(type, Key.stack, "
           "Value.stack, size)")
    td = repo.func(H + "TheDict.__init__")
    # abstract execution of the constructor on opaque arguments: how the
    # two structures end up configured, however the statements are spelt
    tdc = repo.cls(H + "TheDict")
    koff, voff = Opaque("ht.key_offset"), Opaque("ht.value_offset")
    eb = Obj(None, {})
    made = []

    def mk(tag):
        def make(*a, **k):
            o = Obj(None, {"_made_by": tag})
            made.append(o)
            return o
        # (the structure classes: callable, and they know their size)
        return Obj(None, {"__call__": ("hook", make), "stack": 16,
                          "_made_by": "class " + tag})
    ht = Obj(None, {"Key": mk("Key"), "Value": mk("Value"),
                    "key_offset": koff, "value_offset": voff})
    me = Obj(tdc, {})
    try:
        Evaluator(repo, td._module, tdc).call_function(
            td, [me, ht, eb, Opaque("fd")], cls=tdc)
    except (Unknown, Raised) as e:
        raise AnalysisError(f"R09.3: cannot evaluate TheDict.__init__: {e}")
    k, v = me.fields.get("key"), me.fields.get("value")
    ok = isinstance(k, Obj) and isinstance(v, Obj) and \
        k.fields.get("_made_by") == "Key" and \
        v.fields.get("_made_by") == "Value" and \
        k.fields.get("addr_offset") is koff and \
        v.fields.get("addr_offset") is voff and \
        k.fields.get("ebpf") is eb and v.fields.get("ebpf") is eb and \
        "data" in k.fields and k.fields["data"] is None and \
        "data" in v.fields and v.fields["data"] is None and \
        "base_register" not in k.fields and "base_register" not in v.fields
    chk.ob("R09.3", H + "TheDict.__init__", "on-stack key/value use the "
           "offsets Dict.__set_name__ reserved", ok, td,
           "key_offset / value_offset")
    for meth, reg, off in (("update", 2, "self.key.addr_offset"),
                           ("update", 3, "self.value.addr_offset"),
                           ("lookup", 2, "self.key.addr_offset")):
        f = repo.func(H + "TheDict." + meth)
        ok = bool(find(f"ebpf.r{reg} = ebpf.r10 + {off}", f, mode="stmt"))
        chk.ob("R09.3", H + "TheDict." + meth, f"r{reg} points at the "
               f"reserved area", ok, f, f"r{reg} = r10 + {off}")
    lk = repo.func(H + "TheDict.lookup")
    ok = bool(find("value.addr_offset = 0", lk, mode="stmt")) and bool(find(
        "value.base_register = 0", lk, mode="stmt"))
    chk.ob("R09.3", H + "TheDict.lookup", "the looked-up value is accessed "
           "through r0 at offset 0", ok, lk, "base register 0, offset 0")


def returned_buffers(func, only_names=False):
    """(offenders, number of returns): the buffers a function returns must
    be bytearray()/bytes() objects allocated in that call, on every path"""
    cfg = CFG(func)
    rd = ReachingDefs(cfg)
    aliased = []
    nret = 0
    for n in cfg.nodes:
        st = n.stmt
        if n.kind == "return" and isinstance(st, ast.Return) and \
                st.value is not None:
            if not isinstance(st.value, ast.Name):
                if only_names:
                    continue
                nret += 1
                if not (isinstance(st.value, ast.Call) and dotted(
                        st.value.func) in ("bytearray", "bytes")):
                    aliased.append(unparse(st.value))
                continue
            nret += 1
            for df in rd.reaching(n, st.value.id):
                v = df.value
                if not (df.kind == "assign" and isinstance(v, ast.Call)
                        and dotted(v.func) in ("bytearray", "bytes")):
                    aliased.append(f"{st.value.id} = "
                                   f"{unparse(v) if isinstance(v, ast.AST) else df.kind}")
    return aliased, nret


def commands(chk, repo):
    for name, num in CMDS.items():
        f = repo.func(B + name)
        chk.analysed(B + name)
        cs = [c for c in calls_in(f) if resolve_callee(repo, c) == B + "bpf"]
        ok = len(cs) == 1 and int_const(cs[0].args[0]) == num
        chk.ob("R09.4", B + name, f"issues bpf command {num}", ok, f,
               f"first argument of bpf() is "
               f"{unparse(cs[0].args[0]) if cs else '?'}")
    lk = repo.func(B + "_lookup_elem")
    cs = [c for c in calls_in(lk) if resolve_callee(repo, c) == B + "bpf"]
    p0 = param_names(lk)[0]
    ok = len(cs) == 1 and isinstance(cs[0].args[0], ast.Name) and \
        cs[0].args[0].id == p0 and not assigned_values(lk, p0)
    chk.ob("R09.4", B + "_lookup_elem", "issues the command it was given",
           ok, lk, f"bpf({unparse(cs[0].args[0]) if cs else '?'}, ...): "
           f"with a literal here lookup_and_delete_elem never deletes")
    for name, num in (("lookup_elem", 1), ("lookup_and_delete_elem", 21)):
        f = repo.func(B + name)
        ok = bool(find(f"_lookup_elem({num}, *args)", f))
        chk.ob("R09.4", B + name, f"passes command {num}", ok, f,
               "BPF_MAP_LOOKUP_ELEM = 1, BPF_MAP_LOOKUP_AND_DELETE_ELEM = "
               "21")
    # iteration starts with a NULL key
    gk = repo.func(B + "get_next_key")
    kp = param_names(gk)[1]
    ifs = [s for s in walk_no_nested(gk) if isinstance(s, ast.If)
           and match(f"isinstance({kp}, int)", s.test) is not None]
    ok = len(ifs) == 1 and bool(find(f"{kp} = 0", ifs[0].body, mode="stmt")) \
        and bool(find(f"{kp} = addrof({kp})", ifs[0].orelse, mode="stmt"))
    cs = [c for c in calls_in(gk) if resolve_callee(repo, c) == B + "bpf"]
    ok = ok and len(cs) == 1 and len(cs[0].args) >= 4 and unparse(
        cs[0].args[3]) == kp
    chk.ob("R09.4", B + "get_next_key", "iteration starts with a NULL key "
           "pointer, continues with the previous key", ok, gk,
           "a zero-filled key buffer instead of NULL starts *after* an "
           "existing all-zero key and skips entries")
    # the key handed back is a buffer of its own (callers keep the keys
    # they were given while they go on iterating)
    aliased, nret = returned_buffers(gk)
    need(nret >= 1, "get_next_key: no return of the key buffer found")
    chk.ob("R09.4", B + "get_next_key", "every call returns a freshly "
           "allocated key buffer", not aliased, gk,
           ("returns " + "; ".join(aliased) + ": the caller's previous key "
            "object is overwritten by the next step, so keys collected "
            "during iteration (list(table), items()) all turn into the "
            "last key") if aliased else "bytearray(...) on every path")
    le = repo.func(B + "_lookup_elem")
    chk.analysed(B + "_lookup_elem")
    aliased, nret = returned_buffers(le, only_names=True)
    if nret == 0:
        # the buffer is returned through a decoding step: it must still be
        # allocated here
        need(bool(find("bytearray($n)", le)), "_lookup_elem: no value "
             "buffer is allocated or returned")
    chk.ob("R09.4", B + "_lookup_elem", "every lookup returns a value "
           "buffer of its own", not aliased, le,
           ("returns " + "; ".join(aliased) + ": TheDict hands the buffer "
            "out as the .data of the value it returns, so a later lookup "
            "rewrites the members of entries returned before") if aliased
           else "bytearray(...) allocated in the call on every path")
    it = repo.func(H + "TheDict.__iter__")
    # iteration, by abstract execution against a model of the kernel's
    # get_next_key (first key for a size, then the key after the one
    # given): every key of the map is yielded once, as an object of its own
    td = repo.cls(H + "TheDict")
    st_ = repo.cls("ebpfcat.ebpf.Structure")
    bad = []
    for keys in ([], [b"\x01\x00\x00\x00"],
                 [b"\x00\x00\x00\x00", b"\x05\x00\x00\x00",
                  b"\x02\x00\x00\x00"],
                 [bytes([i, 0, 0, 7]) for i in range(9)]):
        calls = []

        def gnk(fd, key, _keys=keys, _calls=calls):
            _calls.append((fd, key))
            if isinstance(key, int):
                if key != 4:
                    raise Raised("OSError: key size")
                i = 0
            else:
                kb = bytes(key)
                i = _keys.index(kb) + 1 if kb in _keys else 0
            if i >= len(_keys):
                raise Raised("StopIteration")
            return bytearray(_keys[i])
        me = Obj(td, {"fd": 9, "key": Obj(st_, {"stack": 4, "data":
                                                bytearray(4)})})
        ev_ = Evaluator(repo, td.module, td, funcs={
            "get_next_key": gnk})
        try:
            got = ev_.call_function(it, [me], cls=td)
        except Raised as e:
            if keys or "StopIteration" not in e.what:
                bad.append(f"{len(keys)} keys: raises {e.what}")
            continue
        except Unknown as e:
            raise AnalysisError(f"{H}TheDict.__iter__: cannot be "
                                f"evaluated: {e}")
        datas = [bytes(o.fields.get("data", b"")) if isinstance(o, Obj)
                 else o for o in (got or [])]
        if datas != keys:
            bad.append(f"{len(keys)} keys: yields {datas[:4]}..., the map "
                       f"holds {keys[:4]}...")
        elif len({id(o) for o in got}) != len(got) or any(
                o is me.fields["key"] for o in got):
            bad.append(f"{len(keys)} keys: the same key object is yielded "
                       f"more than once")
        elif any(fd != 9 for fd, _ in calls):
            bad.append("another map is iterated")
    chk.ob("R09.4", H + "TheDict.__iter__", "every key of the map is "
           "yielded once, first key by size, next keys by the previous key "
           "(abstract execution against a model of get_next_key)", not bad,
           it, "; ".join(bad[:2]) or "maps of 0, 1, 3 and 9 keys")
    pp = repo.func(H + "TheDict.pop")
    ok = bool(find("lookup_and_delete_elem(self.fd, key.data, "
                   "self.value.stack)", pp))
    chk.ob("R09.4", H + "TheDict.pop", "pop uses lookup-and-delete", ok, pp,
           "the entry is removed")
    dl = repo.func(H + "TheDict.__delitem__")
    ok = bool(find("delete_elem(self.fd, key.data)", dl))
    chk.ob("R09.4", H + "TheDict.__delitem__", "del uses delete_elem", ok,
           dl, "the entry is removed")


def lookup_else(chk, repo):
    lk = repo.func(H + "TheDict.lookup")
    ws = [w for w in walk_no_nested(lk) if isinstance(w, ast.With) and match(
        "ebpf.r0 != 0", w.items[0].context_expr) is not None]
    ok = len(ws) == 1 and isinstance(ws[0].items[0].optional_vars, ast.Name)
    if ok:
        els = ws[0].items[0].optional_vars.id
        ok = bool(find(f"(yield (value, {els}))", ws[0].body))
    chk.ob("R09.5", H + "TheDict.lookup", "the body runs only for a found "
           "key and the complement handler is handed out", ok, lk,
           "with r0 != 0 as Else: yield value, Else")


def fixed(chk, repo):
    d = repo.cls(H + "HashGlobalVarDesc")
    gt, st = d.methods.get("__get__"), d.methods.get("__set__")
    from .c02 import hash_reads
    hash_reads(chk, repo, "R09.6")
    from .c02 import hash_writes
    hash_writes(chk, repo, "R09.6")
    si = [s for s in walk_no_nested(st) if isinstance(s, ast.If) and match(
        "self.fmt == 'x'", s.test) is not None] if st else []
    ok = len(si) == 1 and bool(find(
        "value = round(value * Expression.FIXED_BASE)", si[0].body,
        mode="stmt"))
    chk.ob("R09.6", d.qualname + ".__set__", "x variables are scaled and "
           "rounded before they are packed", ok, st or d.node,
           "round(value * FIXED_BASE)")
    hv = repo.func(H + "HashGlobalVar.__init__")
    ok = bool(find("self.fixed = fmt == 'x'", hv, mode="stmt")) and bool(
        find("self.signed = fmt.islower()", hv, mode="stmt"))
    chk.ob("R09.6", H + "HashGlobalVar.__init__", "program side: x is "
           "fixed-point and signed", ok, hv, "fixed = fmt == 'x'")

# added rules (appended to the explanation the evidence file carries)
EXPLANATION += (" " + 'Added during the build (DESIGN.md 4.31, second table): HashMap.init on a program with two maps; TheDict.__iter__ against a model of get_next_key; hash reads by abstract execution (shared with C02); sign-extension tables of C01 shared.')
EXPLANATION += (" Added after wave 9: (R09.8) a HashMap's variable list is per map; the structure classes in the TheDict.__init__ run are callable stand-ins that know their size.")
