"""E8 - obligations, known findings, evidence, exit status."""
import json
import os
import re
import sys
import time

from .index import AnalysisError

VERIF = os.path.dirname(os.path.dirname(os.path.abspath(__file__)))
KNOWN = os.path.join(VERIF, "known_findings.json")


def norm_instance(text):
    return re.sub(r"\s+", " ", str(text)).strip()


class Obligation:
    def __init__(self, prop, rule, symbol, instance, ok, where, why,
                 path=None, nontrivial=True, info=False):
        self.prop = prop
        self.rule = rule
        self.symbol = symbol
        self.instance = norm_instance(instance)
        self.ok = bool(ok)
        self.where = where
        self.why = why
        self.path = path
        self.nontrivial = nontrivial
        self.info = info

    @property
    def key(self):
        return f"{self.rule}|{self.symbol}|{self.instance}"

    def record(self):
        r = {"property": self.prop, "rule": self.rule, "symbol": self.symbol,
             "instance": self.instance, "status": "discharged" if self.ok
             else "FAILED", "where": self.where, "explanation": self.why}
        if self.path:
            r["path"] = self.path
        return r


class Check:
    """the run of all rules of one property"""

    def __init__(self, prop, tier, repo, evidence_dir=None, quiet=False):
        self.prop = prop
        self.tier = tier
        self.repo = repo
        self.obligations = []
        self.notes = []
        self.floors = []       # (rule, what, count, minimum)
        self.stats = {"functions_analysed": set(), "call_sites": 0,
                      "paths": 0, "unresolved_calls": []}
        self.t0 = time.time()
        self.evidence_dir = evidence_dir or os.environ.get(
            "SA_EVIDENCE_DIR") or os.path.join(VERIF, "evidence")
        self.quiet = quiet
        self.explanation = ""
        self.assumptions = []
        self.rules_doc = {}

    # ------------------------------------------------------- recording
    def ob(self, rule, symbol, instance, ok, node=None, why="", path=None,
           nontrivial=True):
        where = self.repo.where(node) if node is not None and hasattr(
            node, "_module") else (node if isinstance(node, str) else "")
        o = Obligation(self.prop, rule, symbol, instance, ok, where, why,
                       path, nontrivial)
        self.obligations.append(o)
        return o.ok

    def note(self, text):
        self.notes.append(text)

    def floor(self, rule, what, count, minimum):
        """`minimum` is the number of instances confirmed by hand on the tree
        the rule was written for.  The run is refused (no verdict) when the
        rule matches fewer than half of them: the guard is against a rule
        that silently matches (almost) nothing, not against code that lost
        one call site."""
        confirmed = minimum
        minimum = max(1, (confirmed + 1) // 2)
        self.floors.append((rule, what, count, confirmed))
        if count < minimum:
            raise AnalysisError(
                f"{rule}: matched {count} {what}, expected at least "
                f"{minimum} - the rule's anchor is gone or changed shape; "
                f"not a verdict")

    def analysed(self, *qualnames):
        self.stats["functions_analysed"].update(qualnames)

    def doc(self, rule, text):
        self.rules_doc[rule] = text

    # -------------------------------------------------------- finishing
    def known(self):
        try:
            with open(KNOWN) as fin:
                data = json.load(fin)
        except FileNotFoundError:
            return []
        return [e for e in data.get("findings", [])
                if e.get("property") == self.prop]

    def finish(self):
        known = self.known()
        open_keys = {e["key"]: e for e in known if e.get("status") == "open"}
        failed = [o for o in self.obligations if not o.ok]
        violations = []
        known_hits = []
        for o in failed:
            if o.key in open_keys:
                known_hits.append((o, open_keys[o.key]))
            else:
                violations.append(o)
        lines = []
        for o, e in known_hits:
            lines.append(f"KNOWN-FINDING: property={self.prop} {o.rule} "
                         f"{o.symbol} [{o.instance}] {e.get('what', o.why)}")
        replay_dir = os.path.join(self.evidence_dir, "replay")
        seen_paths = []
        for i, o in enumerate(violations):
            os.makedirs(replay_dir, exist_ok=True)
            rp = os.path.join(replay_dir, f"{self.prop}-{i}.json")
            with open(rp, "w") as fout:
                json.dump(o.record(), fout, indent=1)
            lines.append(f"{o.where} {o.rule} {o.symbol} [{o.instance}] "
                         f"{o.why}" + (f" path: {o.path}" if o.path else ""))
            lines.append(f"VIOLATION property={self.prop} replay={rp}")
        stale = [k for k in open_keys
                 if k not in {o.key for o in self.obligations}]
        for k in stale:
            self.notes.append(f"known finding key not produced by this run "
                              f"(rule instance vanished?): {k}")
        self.write_evidence(violations, known_hits)
        if not self.quiet:
            n = len(self.obligations)
            print(f"[{self.prop}] tier={self.tier} obligations={n} "
                  f"discharged={n - len(failed)} "
                  f"known-findings={len(known_hits)} "
                  f"violations={len(violations)} "
                  f"wall={time.time() - self.t0:.2f}s")
            for t in self.notes:
                print(f"note: {t}")
        for ln in lines:
            print(ln)
        return 1 if violations else 0

    def write_evidence(self, violations, known_hits):
        os.makedirs(self.evidence_dir, exist_ok=True)
        obs = self.obligations
        keys = {o.key for o in obs if o.nontrivial}
        samples = [o.record() for o in obs[:3]]
        for o in obs:
            if not o.ok and len(samples) < 12:
                samples.append(o.record())
        # one sample per rule so a reader sees what each looks like
        seen_rules = {s["rule"] for s in samples}
        for o in obs:
            if o.rule not in seen_rules and len(samples) < 40:
                samples.append(o.record())
                seen_rules.add(o.rule)
        per_rule = {}
        for o in obs:
            d = per_rule.setdefault(o.rule, {"obligations": 0, "failed": 0})
            d["obligations"] += 1
            d["failed"] += 0 if o.ok else 1
        ev = {
            "property_id": self.prop,
            "tier": self.tier,
            "seed": int(os.environ.get("VERIF_SEED", "0") or 0),
            "level": "other",
            "coverage": {
                "explanation": self.explanation,
                "obligations": len(obs),
                "discharged": sum(1 for o in obs if o.ok),
                "evaluations": len(obs),
                "distinct_nontrivial": len(keys),
                "rule": "each obligation is one instance of a structural "
                        "rule (rule id | qualified symbol | instance) "
                        "derived from the property; it counts as "
                        "non-trivial when the rule inspected at least one "
                        "resolved program fact (syntax tree, CFG, "
                        "reaching definition, folded table row) of the "
                        "current /repo source; distinct = distinct keys",
                "samples": samples,
                "exhaustive": True,
                "rules": self.rules_doc,
                "per_rule": per_rule,
                "floors": [{"rule": r, "what": w, "matched": c,
                            "confirmed_by_hand": m,
                            "minimum": max(1, (m + 1) // 2)}
                           for r, w, c, m in self.floors],
                "functions_analysed": sorted(
                    self.stats["functions_analysed"]),
                "call_sites": self.stats["call_sites"],
                "paths": self.stats["paths"],
                "unresolved_calls": self.stats["unresolved_calls"][:50],
                "known_findings": [o.key for o, _ in known_hits],
                "notes": self.notes,
                "repo_root": self.repo.root,
            },
            "assumptions": self.assumptions,
            "wall_s": round(time.time() - self.t0, 3),
            "violations": len(violations),
        }
        path = os.path.join(self.evidence_dir, f"{self.prop}.json")
        with open(path, "w") as fout:
            json.dump(ev, fout, indent=1, default=str)
