"""what MANIFEST.json claims per property (tools/mkmanifest.py reads this)"""

NOTES = ("Technique family: static analysis only. Every check parses the "
         "current /repo/ebpfcat/*.py with the ast module, derives "
         "class-hierarchy, CFG, reaching-definition and folded-table facts "
         "and discharges structural obligations that are necessary "
         "conditions of the property; see DESIGN.md. Exit 2 + "
         "ANALYSIS-ERROR means the analysis could not be carried out "
         "(anchor vanished); it is never a verdict.")

_TRUST = ("Python semantics of the constructs the rules read; the frozen "
          "reference tables named in the evidence file (eBPF ISA encoding, "
          "bpf() command numbers, struct sizes, EtherCAT constants); the "
          "behavioural remainder of the property is declined, see DESIGN.md")

NOT_APPLICABLE = {
    "C22": "quantifies over frame histories (loss, injection, reordering) "
           "of the *generated* dispatcher bytecode; nothing in the shape of "
           "the generator's source bounds that - it needs the executed "
           "program and a model checker, a different technique family. Its "
           "two structural clauses (no dropping exit, table bounds) are "
           "checked as R21.4/R21.5 under C21 and not claimed here.",
}

CLAIMS = {}


def claim(pid, level, technique, note=_TRUST):
    CLAIMS[pid] = {"level": level, "technique": technique, "note": note,
                   "design_ref": f"DESIGN.md section 4, {pid}"}


claim("C10",
      "symbolic size analysis: for each of the call sites of the user-space "
      "map primitives the size of every Python buffer handed to the kernel "
      "is derived symbolically and compared with the key/value size of the "
      "map's create_map call; the primitives in bpf.py must forward sizes "
      "unchanged; the per-CPU buffer must be 8-rounded size x possible CPUs. "
      "Sizes are static in this code base, so this decides the property up "
      "to the kernel's documented copy lengths.",
      "ast call-site enumeration + symbolic buffer-size analysis with "
      "reaching definitions")
