"""what MANIFEST.json claims per property (tools/mkmanifest.py reads this)"""

NOTES = ("Technique family: static analysis only. Every check parses the "
         "current /repo/ebpfcat/*.py with the ast module, derives "
         "class-hierarchy, CFG, reaching-definition, path and folded-table "
         "facts and discharges obligations that are necessary conditions of "
         "the property; see DESIGN.md. Before the rules run the syntax trees "
         "are normalised (noise dropped; control flow, negations, match / "
         "walrus / with / loop spellings in one canonical form; constants "
         "folded; helpers, closures, properties, named tuples, named "
         "constants and temporaries that the reference tree does not know "
         "inlined; renamed locals mapped back): naming only. Nothing of "
         "/repo is imported or run by Python. Some obligations are decided "
         "by *abstract execution*: the analyser's own interpreter "
         "(sa/evalx.py) evaluates a pure layout/encoding function of the "
         "source on closed inputs the rule constructs - exhaustively where "
         "the input domain is finite (decision tables, format alphabets, "
         "enumerations), on a stated finite family of configurations where "
         "it is not (sizes, orders, numbers of terminals/variables/"
         "datagrams); the latter are bounded checks, decided for that family "
         "only - DESIGN.md 1.3 and 4.31 say which rule is which, the "
         "evidence file gives the family. Functions that talk to a device "
         "through a few accessors (read_eeprom, to_operational, map_fmmu, "
         "roundtrip, ...) are interpreted the same way against a small "
         "model of what is behind the accessors (SII interface, ESC state "
         "machine, FMMU registers, kernel map iteration) written in the "
         "rule, for a listed family of images, delays, faults and call "
         "histories: bounded, model-based checks of the source text at the "
         "edge of the technique family, marked F in DESIGN.md 4.31; the "
         "interpreter has a statement budget (non-termination is a "
         "finding). Exit 2 + ANALYSIS-ERROR means the analysis could not be "
         "carried out (anchor vanished, shape outside the known idioms); it "
         "is never a verdict. The thorough tier runs the model-based rules "
         "on larger families (C14: the whole parameter product of the "
         "state machine model, C17: 51 EEPROM images, C20: all slot tables "
         "of up to 6 FMMUs, C25: small-scope exhaustive draw sequences) "
         "and adds checker "
         "self-validation on the recorded corpora: 732 seeded "
         "property-breaking changes (727 reported, four without verdict and "
         "one gap recorded), 16 "
         "mechanical variants and 696 hand-made behaviour-preserving "
         "refactorings (all silent; one run takes the property's own and "
         "a fixed quarter of the others, SA_SELFVAL_ALL=1 all of them). Held-out first-run "
         "rates of the last waves: 82 % of 87 and, with the final checks, "
         "86 % of 36 unseen breaking changes "
         "reported, 7 % of 87 unseen refactorings noisy (DESIGN.md 7.4).")

_TRUST = ("Python semantics of the constructs the rules read; the frozen "
          "reference tables named in the evidence file (eBPF ISA encoding, "
          "bpf() command numbers, struct sizes, EtherCAT constants); the "
          "behavioural remainder of the property is declined, see DESIGN.md")

NOT_APPLICABLE = {
    "C22": "quantifies over frame histories (loss, injection, reordering) "
           "of the *generated* dispatcher bytecode; nothing in the shape of "
           "the generator's source bounds that - it needs the executed "
           "program and a model checker, a different technique family. Its "
           "two structural clauses (no dropping exit, table bounds) are "
           "checked as R21.4/R21.5 under C21 and not claimed here.",
}

CLAIMS = {}


def claim(pid, level, technique, note=_TRUST):
    CLAIMS[pid] = {"level": level, "technique": technique, "note": note,
                   "design_ref": f"DESIGN.md section 4, {pid}"}


claim("C10",
      "symbolic size analysis: for each of the call sites of the user-space "
      "map primitives the size of every Python buffer handed to the kernel "
      "is derived symbolically and compared with the key/value size of the "
      "map's create_map call; the primitives in bpf.py must forward sizes "
      "unchanged; the per-CPU buffer must be 8-rounded size x possible CPUs. "
      "Sizes are static in this code base, so this decides the property up "
      "to the kernel's documented copy lengths.",
      "ast call-site enumeration + symbolic buffer-size analysis with "
      "reaching definitions")

_ALG = ("abstract interpretation of the DSL's operator dunders on operand "
        "kinds (evaluator over the ast) + table comparison with the eBPF ISA")

claim("C01",
      "tables and selectors the value semantics is built from, each a "
      "necessary condition: Opcode members vs the eBPF ISA, every emitted "
      "opcode sum a valid instruction, the operator algebra folded for all "
      "operand-kind combinations (operation, operand order, signedness), "
      "format->size tables, sign-extension guard/shift/view table, register "
      "views, constant encoding, signed division lowering, requested width "
      "honoured, operand search. Does not decide that an arbitrary "
      "expression tree evaluates exactly (that needs the executed code).",
      _ALG + "; CFG/reaching-definition check of the width parameter")
claim("C02",
      "units-of-measure check of the fixed-point algebra: every operator, "
      "comparison and store path folded for all operand-kind combinations; "
      "operands meet at equal FIXED_BASE exponent and the result's exponent "
      "equals its fixed flag; float->scaled-integer conversions are rounded. "
      "Does not decide exact rational results of whole trees.",
      _ALG + " with a scale-exponent (dimension) domain")
claim("C03",
      "comparison opcode table (positive/negated, signed/unsigned) folded "
      "for all operand kinds against the ISA; immediate/register form "
      "selected consistently; bit-field comparisons; short-circuit table of "
      "and/or/not folded with recording operands; jump-offset normal form "
      "and placeholder pairing. Does not decide nesting/sequencing of "
      "emitted blocks or the JSET/Else splice.",
      _ALG + "; syntactic normal-form check of jump patching")
claim("C11",
      "layout constants = calcsize of the packed formats; Packet.append "
      "accounting as linear forms incl. check-before-commit; datagram "
      "header/length word/'more' flag folded for boundary lengths and "
      "identical datagrams; frame header and padding; sterile-copy "
      "bookkeeping order. Does not compare whole frames byte by byte.",
      "constant folding + linear normal forms with reaching definitions + "
      "finite-domain tabulation of the header expression + CFG dominance")
claim("C12",
      "completion guards on every future completion in EtherCat (same "
      "definition, no await in between); (start, stop, future) tuple "
      "def-use from Packet.append to process_packet; path-sensitive progress "
      "check of the overflow retry loop; frame-index ownership; single "
      "consumer/producer of the send queue; append leaves no trace when it "
      "rejects. Does not decide event-loop orderings or loss histories.",
      "CFG + reaching definitions + path facts; small path-sensitive state "
      "exploration of sendloop's retry cycle")
claim("C13",
      "prefix discipline of every format in roundtrip, payload order, "
      "head/tail split from the front at calcsize(fmt), result shape "
      "selected by `data is None`/`args` (folded over 15 rows), decode with "
      "the sizing format, datagram length word. Does not decide the "
      "value-level round trip.",
      "syntax/def-use rules on EtherCat.roundtrip + finite-domain folding of "
      "guards")
claim("C20",
      "the FMMU slot claimed is the slot proven free (symbolic check of the "
      "reversed-slice search for every reaching start, or every path "
      "through an explicit is-None test), no await between search and "
      "claim, release of the same slot on all paths incl. cancellation, "
      "register block of that slot, one context per terminal and direction "
      "through an AsyncExitStack. Does not observe register writes.",
      "CFG with cancellation edges + reaching definitions + symbolic index "
      "arithmetic")
claim("C24",
      "static counterpart of cancellation injection: on the CFG with a "
      "CancelledError edge at every await/async-with/yield, every "
      "cancellation point while an obligation (OPERATIONAL request, FMMU "
      "slot, kernel program slot, child process) is held leads through its "
      "release; handlers do not swallow, except-as names are not read after "
      "their handler, finally blocks do not return; fast groups await "
      "inside the registration context. Does not decide double "
      "cancellation or what terminals observe.",
      "typestate (acquire/release) analysis on the exceptional CFG + "
      "reaching definitions with except-as unbinding")

claim("C04",
      "stack watermark discipline folded over start values and sizes (every "
      "carver of r10-relative storage hands out a region between the new and "
      "the old watermark, aligned, disjoint from its sibling), temporaries "
      "and their addresses confined to their with block, hash-map cell "
      "identity (fresh count, per-instance bookkeeping, same key on both "
      "sides), save_registers parks values in registers. Subprogram locals "
      "are a recorded finding. Does not decide aliasing through computed "
      "addresses.",
      "finite-domain folding of the allocation code + lexical region / "
      "escape rule + CFG dominance")
claim("C05",
      "the generator's side of verifier rules, each necessary for "
      "acceptance: value-less registers refused on every path, helper-call "
      "clobber set, null checks after lookups, helper argument registers "
      "defined, packet accessors only inside strict guards, ownership "
      "bracket folded on register kinds, aligned stack slots, Structure "
      "member base register. Does not reproduce the verifier.",
      "CFG edge-filtered reachability + finite-domain folding of set "
      "bookkeeping + call-site enumeration with a helper prototype table")
claim("C06",
      "in-place add is lowered to one atomic instruction: __iadd__/__isub__ "
      "folded over all formats x amount kinds return the IAdd marker exactly "
      "for native 4/8-byte formats; the IAdd path of Memory._set emits "
      "exactly XADD|size, never the immediate shortcut, no load; descriptor "
      "routes pass the marker on; negation width. The atomicity of XADD "
      "itself is an ISA axiom.",
      "abstract interpretation of the dunders + path facts on Memory._set")
claim("C07",
      "byte-swap lowering folded with a recording program object for every "
      "prefix x letter x width (opcode, immediate, re-extension of signed "
      "formats after the zero-extending swap); wrapping/stripping of "
      "prefixes; constant re-packing; strict packet guards; address "
      "identity of packet variables; no atomic add on prefixed formats. "
      "Does not decide byte-exact results on packets.",
      "finite-domain folding with recording stubs + pattern rules")
claim("C08",
      "single source of layout (fmt_addr), reservation = fmtsize of the "
      "recorded descriptor laid out largest first, MRO de-duplication "
      "(seen-set scope, walk order, test and add), distinct callee-saved "
      "base registers per map kind, per-CPU stride, scalar/tuple symmetry, "
      "fixed-point rounding. Does not observe read-back through mmap.",
      "syntax-tree scope/dominance rules + constant folding")
claim("C09",
      "hash-map cell width and key agreement on both sides, defaults after "
      "`loaded`, Structure member layout folded over offsets x formats, "
      "bpf() command numbers per wrapper against the uapi table, NULL first "
      "key for iteration, Else on absent key, fixed-point symmetry, stack "
      "reservation of Dict areas and computed values. Does not decide "
      "operation histories.",
      "finite-domain folding + call-site table check + CFG dominance")

claim("C14",
      "AL state codes/order/registers against ETG.1000; on the CFG of "
      "to_operational: acknowledge first and then start from the constant "
      "INIT, `state >= target` return test dominates every request, walk "
      "over the states after the start state, polling until the requested "
      "state with the error test on every path from a poll to the next "
      "request. Does not decide terminal behaviours over time.",
      "CFG dominance / must-pass-through + reaching definitions + enum "
      "constant folding")
claim("C15",
      "lock-held call graph: every mbx_send/mbx_recv/next_counter call lies "
      "in an `async with mbx_lock` region or in a function whose callers "
      "all do (fixpoint); send and receive in one region; counter cycle of "
      "both lock classes folded over 0..7; cross-process section order "
      "(read after lock, write-back before unlock on every exit). In-process "
      "exclusion and the creation window are recorded findings. Does not "
      "explore interleavings.",
      "call-graph lock-state analysis + finite-domain folding + CFG "
      "edge-filtered reachability")
claim("C16",
      "payload/response taint by reaching definitions, send+receive on every "
      "trip of the segment loops, accumulator type, symbolic message-size "
      "bound against the mailbox, every received mail type-checked before "
      "it is parsed (edge-filtered reachability), in/out mailbox attribute "
      "separation, lock held over the exchange. The segmented paths are "
      "recorded findings. Does not decide byte-for-byte equality.",
      "reaching definitions (two-taint) + CFG must-pass-through + linear "
      "size bounds")
claim("C17",
      "word/byte units of the SII reader, end-of-walk condition, busy "
      "polling with status and data from the same read (reaching "
      "definitions), record strides vs struct sizes, sync-manager mode "
      "table extraction, bit position advancing on every path of the entry "
      "loop, entry mapping folded over sizes. Does not decode images.",
      "CFG must-pass-through + reaching definitions + decision-table "
      "extraction + constant folding")
claim("C18",
      "reserve-then-advance in both allocate() implementations, region "
      "carried by the very next datagram of the right direction, offset "
      "composition in SyncGroupBase.allocate/append_fmmu, window constants "
      "(MAXSIZE <= inc, 2*inc <= step), Packet.append accounting as linear "
      "forms, single writer of packet size. Does not parse frames.",
      "statement-order rules on allocators + constant relations + linear "
      "normal forms")
claim("C19",
      "one start for both paths (+ Ethernet header on the program path), "
      "same width/bit encodings, program-side bit mask folded over field "
      "shapes, descriptor offset resolution with StructDesc.__init__ folded "
      "incl. explicit zeros, cached accessor closures capture only the "
      "position (free-variable analysis). Does not compare frame bytes.",
      "pattern rules + finite-domain folding + free-variable analysis of "
      "closures")

claim("C21",
      "sterile typestate of every frame a fast group sends (reaching "
      "definitions at each send), activation order read off the DSL event "
      "list (exit-while-not-operational, then per writer enable / compare "
      "with != / clear), program structure inside one packet guard, "
      "wkc_errors gating, no dropping exit and table bounds in the "
      "dispatcher, write datagrams registered as writers, stamp parity of "
      "the dispatcher folded over the counter's parity. Does not decide the "
      "dispatcher's behaviour over frame histories.",
      "DSL event-list reader (guarded emission order) + reaching "
      "definitions + finite-domain folding of the parity protocol")
claim("C23",
      "exclusive creation (mode 'x', non-empty election token renamed onto "
      "the well-known name, only the winner installs), FMMU bitmap writes "
      "under lockf by a forward lock-state analysis on the CFG, initial "
      "bitmap marks the creator's own window (folded), teardown order, "
      "failure cleanup. The creator's unlocked write and detach-after-rmdir "
      "are recorded findings. Does not explore interleavings or crashes.",
      "CFG dominance + forward must-hold lock-state dataflow + constant "
      "folding")
claim("C25",
      "no await between membership test and add, add dominates the probe, "
      "return only in the EtherCatError handler of the probe at the "
      "candidate, range is class-level configuration never overwritten per "
      "instance, writers of register 0x10, EtherCatError created only for "
      "working counter 0. Does not run simulated buses.",
      "CFG between-nodes await scan + dominance + reaching definitions + "
      "who-may-construct rule")
claim("C26",
      "forward clamp-fact analysis over the DSL event list of "
      "Motor.program: every limit idiom tests and overwrites the variable "
      "carrying this pass's command, acceleration limits relative to the "
      "previous output, then velocity limits, then limit-switch zeroing as "
      "last stores; 64-bit signed temporary; signed velocity formats. Does "
      "not decide the bit-vector control law.",
      "DSL event-list reader + abstract facts per variable (typestate of "
      "the command value)")
claim("C27",
      "decision table of Valve.update, by abstract execution of the method "
      "(helpers included) on every combination of switches x coil x target "
      "x error x safeState x {within, after movingTime} (and any further "
      "state attribute it reads): the state it ends in is compared row by "
      "row with the specification - timer refreshed exactly when the "
      "switches confirm the coil, coil follows the target while confirmed "
      "or within movingTime, otherwise error and coil/target equal to the "
      "configured safeState; reset clears the error and restarts the timer "
      "whatever the state; bit variables read as bool; accessors read the "
      "current frame. Does not replay histories.",
      "exhaustive finite-domain abstract execution + class-attribute "
      "folding")
claim("C28",
      "branch structure of Serial.update: receive/transmit toggles guarded "
      "and paired with their data, single clearing site, read only when no "
      "chunk is outstanding, init latching of both peer bits, chunk size vs "
      "string capacity vs channel block size. Does not decide timings.",
      "guarded-statement pairing rules + struct size folding")
claim("C29",
      "map identity: the ArrayMap() call DeviceVar names is the one every "
      "map-keeping sync-group class lays out (alias resolution over the "
      "class index); simulated buffer stored under the map's name in shared "
      "memory; collect() de-duplication and walk order; rounding; every "
      "device bound to its group on every loop iteration. Does not observe "
      "two processes.",
      "class-attribute alias resolution to AST node identity + CFG "
      "must-pass-through")
claim("C30",
      "order within a cycle on the CFG of update_devices (copy, compare "
      "with !=, clear, update, return), counters recorded by the append all "
      "datagrams pass, every send in SyncGroupBase.run transmits the latest "
      "frame whose reaching definitions are the prepared frame or "
      "update_devices' result. Does not decide multi-cycle histories.",
      "CFG dominance + reaching definitions at send sites")


# obligations decided by abstract execution (DESIGN.md 1.3 / 4.31): named in
# the technique field of the properties that use them
_ABSTRACT = {
    "C01": "exhaustive abstract execution of the byte-swap lowering (18 "
           "endian formats x 2 widths) and tabulation of Memory.signed / "
           "the store-immediate predicate; path enumeration with "
           "mode-variable propagation for opcode domains; abstract "
           "execution of EBPF.assemble on instruction lists; override rule "
           "for the operator lowering",
    "C02": "abstract execution of ArrayGlobalVarDesc.unpack and "
           "HashGlobalVarDesc.__get__ on packed cells (finite family); "
           "unary-operator table; who-may-decode rule",
    "C03": "shares the exhaustive byte-swap table of C01 and the rounding "
           "rule of C02; abstract execution of SimpleComparison.target on "
           "48 placeholder cases",
    "C04": "abstract execution of ArrayMap.collect on a finite family of "
           "program hierarchies and of the bit-field store on 63 "
           "field/value combinations x every old byte (bounded)",
    "C05": "exhaustive abstract execution of EBPF.exit over the exit-code "
           "enumerations and of the save_registers lists around helper "
           "calls; abstract execution of prog_load / EBPF.load on names of "
           "0..40 characters, of MemoryMap.__getitem__ on bare registers; "
           "shares the sign-extension tables of C01",
    "C06": "path enumeration with mode-variable propagation over "
           "Memory._set; abstract execution of every fmt_addr; CFG rule on "
           "TheDict.lookup",
    "C07": "shares the exhaustive byte-swap table and the store-immediate "
           "tabulation of C01; override rule for switch_endian",
    "C08": "abstract execution of ArrayMap.collect, SimulatedEBPF.__init__ "
           "and unpack on finite families of hierarchies / formats "
           "(bounded); who-may-decode rule; shares the sign-extension "
           "tables of C01",
    "C09": "abstract execution of TheDict.__init__, TheDict.__iter__ "
           "(against a model of get_next_key), HashMap.init (two maps) and "
           "the hash reads (bounded)",
    "C10": "abstract execution of PerCPUArrayMap.create_map with a stand-in "
           "open() over 9 CPU masks",
    "C11": "abstract execution of Packet.append/assemble and "
           "SterilePacket.sterile on finite families of datagram lists with "
           "an independent frame decoder (bounded); who-may-append-writers "
           "rule",
    "C12": "shares the frame family of C11; who-may-complete rule over the "
           "class hierarchy; CFG rules own-request / blocking-reads / "
           "overflow progress; abstract execution of roundtrip_packet for "
           "the index space of datagram frames",
    "C13": "abstract execution of roundtrip on 31 argument lists run on one "
           "master in two orders (bounded, with histories)",
    "C14": "abstract execution of to_operational against a model of the ESC "
           "state machine, 190 runs (bounded, model-based)",
    "C15": "abstract execution of ParallelMailboxLock against a model of "
           "the lock file (record locks per process, contention, a pickled "
           "lock; bounded, model-based)",
    "C16": "CFG must-pass rule on mbx_send, CFG reachability rule on "
           "mbx_recv; shares the lock-file model of C15",
    "C17": "abstract execution of read_eeprom / _eeprom_read_one / "
           "eeprom_read against a model of the SII interface (164 runs "
           "with histories), of parse_sync_managers on 72 record tables, of "
           "parse_pdos on 32 tables from both sources and of apply_eeprom's "
           "sizes (bounded, model-based)",
    "C18": "abstract execution of SyncGroupBase.allocate and everything it "
           "calls on 15 terminal groups, checked against an independent "
           "frame description; of append_fmmu, map_fmmu's register image "
           "and the flag merge of SyncGroupBase.__init__ (bounded)",
    "C19": "shares the allocation family of C18 and the PDO tables of C17; "
           "abstract execution of the descriptors with descriptor objects "
           "shared across channels and of TerminalVar over value kinds",
    "C20": "abstract execution of map_fmmu on all slot tables of 1-4 FMMUs "
           "over three owner kinds (720 runs); who-may-write rule for the "
           "FMMU registers",
    "C21": "shares the allocation family of C18 and the sterile / writer "
           "rules of C11; linear normal forms of frame offsets; aliasing "
           "rule for the sterile template; CFG rule for the slot lookup",
    "C23": "effect rule over the file-system operations of "
           "ParallelEtherCat; abstract execution of FMMULock against a "
           "model of the map file (record locks, second descriptors) and "
           "of the netlink helper on 9 kernel answers (bounded, "
           "model-based)",
    "C25": "abstract execution of assigned_address (18 cases) and of "
           "find_free_address against a bus model with a competing task "
           "at every suspension point (12 scenarios, bounded, "
           "model-based); CFG check-then-add rule",
    "C26": "shares the allocation family of C18, the descriptor scenarios "
           "of C19 and the activation rule of C21",
    "C27": "exhaustive abstract execution of Valve.update/reset over the "
           "128-row state space x 2 time classes; CFG must-pass rule on "
           "SyncGroup.update_devices",
    "C29": "shares the layout family of C08; CFG must-pass rule on the "
           "descriptors' __set__",
    "C30": "shares the allocation family of C18; CFG must-pass rule on "
           "SyncGroup.update_devices",
}
for _p, _t in _ABSTRACT.items():
    if _p in CLAIMS:
        CLAIMS[_p]["technique"] += "; " + _t
