"""thorough tier, part (e): checker self-validation.

After the rules of a property have been evaluated on the tree (and found
nothing new), the *checker itself* is exercised on variants of that same
tree, built in a scratch directory outside /repo and /verif:

detection   every recorded change that is known to break the property - the
            seeded changes under seeded/<PROP>-*/patch.diff (written by
            independent agents from the property text alone, see DESIGN.md
            section 7) and the reverse of every `fix:` commit recorded for
            the property in known_findings.json - is applied to a copy of the
            current source and the quick check is run on it: it has to
            report a violation (exit 1).  A change whose patch no longer
            applies to the current tree is skipped and counted.  Seeded
            changes that the rules are known not to report are listed in
            seeded/EXPECTED.json with status 0 (a recorded detection gap,
            shown in the evidence; if a rule starts to report one the
            entry has to go) or 2 (the change restructures the anchor and
            the check ends with ANALYSIS-ERROR).
silence     behaviour-preserving variants of the current source - the
            mechanical ones of tools/neutral.py (locals renamed, trace
            statements inserted, if/else flipped, n = n + 1 <-> n += 1,
            commutative operands swapped, everything re-generated from the
            syntax tree) and the hand-made refactorings under
            neutral/*/patch.diff - must leave the check silent (exit 0).

A failure here is a broken checker, not a verdict on the property: the run
ends with exit status 2 and names the variant.  Nothing of the repository is
imported or executed; the variants are only parsed by the rules.
"""
import concurrent.futures as cf
import json
import os
import shutil
import subprocess
import sys
import tempfile
import time

VERIF = os.path.dirname(os.path.dirname(os.path.abspath(__file__)))
NEUTRAL_KINDS = ("reformat", "rename", "rename2", "noise", "swapadd",
                 "ifswap", "augassign", "all")


def _expected():
    try:
        with open(os.path.join(VERIF, "seeded", "EXPECTED.json")) as fin:
            return json.load(fin)
    except OSError:
        return {}


def _copy_tree(root, dst):
    shutil.copytree(os.path.join(root, "ebpfcat"),
                    os.path.join(dst, "ebpfcat"),
                    ignore=shutil.ignore_patterns("__pycache__"))


def _run_check(prop, root):
    r = subprocess.run([sys.executable, "-m", "sa.check", prop, "--tier",
                        "quick", "--root", root, "--evidence-dir",
                        os.path.join(root, "ev")],
                       cwd=VERIF, capture_output=True, text=True)
    lines = [l for l in r.stdout.splitlines()
             if (" R" in l[:70] or "ANALYSIS" in l) and "VIOLATION" not in l
             and "KNOWN-FINDING" not in l and not l.startswith("[")]
    return r.returncode, (lines[0][:200] if lines else "")


def _patched(prop, root, patch, reverse=False):
    tmp = tempfile.mkdtemp(prefix="sa-selfval.")
    try:
        _copy_tree(root, tmp)
        cmd = ["git", "apply"] + (["-R"] if reverse else []) + [patch]
        r = subprocess.run(cmd, cwd=tmp, capture_output=True, text=True)
        if r.returncode:
            return None, "patch does not apply to this tree"
        return _run_check(prop, tmp)
    finally:
        shutil.rmtree(tmp, ignore_errors=True)


def _neutral(prop, root, kind, seed):
    tmp = tempfile.mkdtemp(prefix="sa-selfval.")
    try:
        env = dict(os.environ, EBPFCAT_REPO=root)
        r = subprocess.run([sys.executable, os.path.join(
            VERIF, "tools", "neutral.py"), kind, str(seed), tmp],
            capture_output=True, text=True, env=env)
        if r.returncode:
            return None, "variant generator failed: " + r.stderr[-200:]
        return _run_check(prop, tmp)
    finally:
        shutil.rmtree(tmp, ignore_errors=True)


def _fix_patches(prop, root, scratch):
    """reverse patches of the fix commits recorded for this property"""
    out = []
    try:
        with open(os.path.join(VERIF, "known_findings.json")) as fin:
            entries = json.load(fin).get("findings", [])
    except OSError:
        return out
    if not os.path.isdir(os.path.join(root, ".git")):
        return out
    for e in entries:
        if e.get("status") != "fixed" or e.get("property") != prop:
            continue
        c = e.get("commit")
        r = subprocess.run(["git", "-C", root, "diff", f"{c}~1", c, "--",
                            "ebpfcat"], capture_output=True, text=True)
        if r.returncode or not r.stdout.strip():
            continue
        path = os.path.join(scratch, f"fix-{e.get('id', c)}.diff")
        with open(path, "w") as fout:
            fout.write(r.stdout)
        out.append((f"reverse of fix {e.get('id')} ({c})", path))
    return out


def _source_digest(root):
    import hashlib
    h = hashlib.sha1()
    pkg = os.path.join(root, "ebpfcat")
    for dp, dn, fn in sorted(os.walk(pkg)):
        dn[:] = sorted(d for d in dn if d != "__pycache__")
        for f in sorted(fn):
            if f.endswith(".py") and not f.endswith("_test.py") \
                    and f != "testdata.py":
                h.update(f.encode())
                with open(os.path.join(dp, f), "rb") as fin:
                    h.update(fin.read())
    return h.hexdigest()


def validate(prop, root=None, evidence_dir=None):
    root = root or os.environ.get("EBPFCAT_REPO", "/repo")
    t0 = time.time()
    # The corpora validate the checker *on the tree they were recorded
    # against*.  On any other tree (somebody changed /repo) the same runs
    # are still carried out and reported, but a disagreement there is not
    # this check's verdict on that tree - the rules have already given it.
    try:
        with open(os.path.join(VERIF, "sa", "refnames.json")) as fin:
            ref_digest = json.load(fin).get("source_digest")
    except (OSError, ValueError):
        ref_digest = None
    on_reference = ref_digest is not None and ref_digest == _source_digest(
        root)
    scratch = tempfile.mkdtemp(prefix="sa-selfval-fixes.")
    expected = _expected()
    jobs = []
    try:
        with cf.ThreadPoolExecutor(max_workers=16) as ex:
            sd = os.path.join(VERIF, "seeded")
            for name in sorted(os.listdir(sd)) if os.path.isdir(sd) else []:
                p = os.path.join(sd, name, "patch.diff")
                if name.split("-")[0] == prop and os.path.exists(p):
                    jobs.append(("detect", "seeded " + name, name,
                                 ex.submit(_patched, prop, root, p)))
            for label, path in _fix_patches(prop, root, scratch):
                jobs.append(("detect", label, label,
                             ex.submit(_patched, prop, root, path, True)))
            seeds = int(os.environ.get("SA_SELFVAL_SEEDS", "2"))
            for kind in NEUTRAL_KINDS:
                for seed in range(seeds):
                    jobs.append(("silent", f"neutral {kind}#{seed}", None,
                                 ex.submit(_neutral, prop, root, kind, seed)))
            nd = os.path.join(VERIF, "neutral")
            try:
                with open(os.path.join(nd, "KNOWN_NOISY.json")) as fin:
                    noisy = json.load(fin)
            except OSError:
                noisy = {}
            # the refactorings written for this property, and a fixed
            # quarter of all the others (SA_SELFVAL_ALL=1: every one of
            # them - tools/run_refactors.py does that for all checks)
            every = os.environ.get("SA_SELFVAL_ALL") == "1"
            for k_, name in enumerate(sorted(os.listdir(nd))
                                      if os.path.isdir(nd) else []):
                p = os.path.join(nd, name, "patch.diff")
                if not (every or name.split("-")[0] == prop or k_ % 4 == 0):
                    continue
                if os.path.exists(p):
                    want = noisy.get(name, {}).get(prop, 0) if isinstance(
                        noisy.get(name), dict) else 0
                    jobs.append(("silent", "refactoring " + name, want,
                                 ex.submit(_patched, prop, root, p)))
            results = [(k, label, key, f.result()) for k, label, key, f in jobs]
    finally:
        shutil.rmtree(scratch, ignore_errors=True)
    bad = []
    skipped = 0
    gaps = []
    stats = {"detect": 0, "silent": 0}
    for kind, label, key, (rc, msg) in results:
        if rc is None:
            skipped += 1
            continue
        stats[kind] += 1
        if kind == "detect":
            want = expected.get(key, 1)
            if want == 0 and rc == 0:
                # a recorded detection gap (seeded/EXPECTED.json): a change
                # that breaks the property and that no rule reports
                gaps.append(key)
                stats[kind] -= 1
                continue
            if rc != want:
                bad.append(f"{label}: the check exits {rc}, expected {want} "
                           f"({msg})")
        elif rc != (key or 0):
            bad.append(f"{label}: the check exits {rc} on a behaviour-"
                       f"preserving variant, expected {key or 0} ({msg})")
    summary = {
        "breaking_changes_checked": stats["detect"],
        "neutral_variants_checked": stats["silent"],
        "skipped_not_applicable_to_this_tree": skipped,
        "known_detection_gaps": gaps,
        "failures": bad,
        "tree_is_reference": on_reference,
        "wall_s": round(time.time() - t0, 1),
    }
    # append to the evidence file of the run that has just been written
    evp = os.path.join(evidence_dir or os.environ.get("SA_EVIDENCE_DIR")
                       or os.path.join(VERIF, "evidence"), f"{prop}.json")
    try:
        with open(evp) as fin:
            ev = json.load(fin)
        ev["coverage"]["self_validation"] = summary
        with open(evp, "w") as fout:
            json.dump(ev, fout, indent=1, default=str)
    except (OSError, ValueError, KeyError):
        pass
    print(f"[{prop}] self-validation: {stats['detect']} breaking changes "
          f"reported, {stats['silent']} neutral variants silent, "
          f"{skipped} skipped, {len(gaps)} known gaps, {len(bad)} failures, "
          f"{summary['wall_s']}s")
    if bad and not on_reference:
        for b in bad:
            print(f"note: self-validation on a tree that differs from the "
                  f"reference: {b}")
        return 0
    if bad:
        for b in bad:
            print(f"ANALYSIS-ERROR property={prop}: self-validation: {b}")
        return 2
    return 0
