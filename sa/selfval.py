"""thorough tier: checker self-validation on mutants of the current source.

See sa/mutants.py for the corpus; a mutant is an AST/text edit of the
*current* /repo source that breaks exactly one rule instance and still
compiles.  The run fails with status 2 (broken checker, not a verdict) if a
mutant is not reported or a neutral variant is reported.
"""


def run(prop, root=None, evidence_dir=None):
    from . import mutants
    return mutants.validate(prop, root, evidence_dir)
