"""linear normal form of integer expressions over symbolic atoms.

expr -> {atom text: coefficient, "": constant}; atoms are sub-expressions
the folder cannot evaluate (``len(data)``, ``self.size`` ...).  Used to
compare offset/size arithmetic independent of how it is written."""
import ast

from .evalx import Evaluator, Unknown, Raised
from .index import unparse


class NonLinear(Exception):
    pass


def lin(expr, ev, env=None, atoms=None):
    """linear form of expr; `ev` folds constants (class constants through
    env["self"]); `atoms` maps unparse-text to canonical atom names"""
    env = env or {}
    atoms = atoms or {}
    try:
        v = ev.eval(expr, env)
        if isinstance(v, bool):
            v = int(v)
        if isinstance(v, int):
            return {"": v}
    except (Unknown, Raised, TypeError, AttributeError):
        pass
    if isinstance(expr, ast.BinOp):
        if isinstance(expr.op, (ast.Add, ast.Sub)):
            a = lin(expr.left, ev, env, atoms)
            b = lin(expr.right, ev, env, atoms)
            sg = 1 if isinstance(expr.op, ast.Add) else -1
            out = dict(a)
            for k, c in b.items():
                out[k] = out.get(k, 0) + sg * c
            return {k: c for k, c in out.items() if c or k == ""}
        if isinstance(expr.op, ast.Mult):
            a = lin(expr.left, ev, env, atoms)
            b = lin(expr.right, ev, env, atoms)
            for x, y in ((a, b), (b, a)):
                if set(x) <= {""}:
                    f = x.get("", 0)
                    return {k: c * f for k, c in y.items()}
            raise NonLinear(unparse(expr))
    if isinstance(expr, ast.UnaryOp) and isinstance(expr.op, ast.USub):
        a = lin(expr.operand, ev, env, atoms)
        return {k: -c for k, c in a.items()}
    txt = unparse(expr)
    return {atoms.get(txt, txt): 1}


def same_lin(a, b):
    ka = {k: c for k, c in a.items() if c}
    kb = {k: c for k, c in b.items() if c}
    return ka == kb


def show(a):
    parts = []
    for k, c in sorted(a.items()):
        if not c:
            continue
        if k == "":
            parts.append(str(c))
        elif c == 1:
            parts.append(k)
        else:
            parts.append(f"{c}*{k}")
    return " + ".join(parts) or "0"
