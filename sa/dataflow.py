"""E4 - reaching definitions on the CFG of one function.

Variables are local names and ``self.<attr>`` pseudo-variables.  A definition
is (cfg node, variable, value expression or None, kind).  Python's rule that
``except E as n`` unbinds ``n`` at the end of the handler is modelled by an
"unbind" definition at every exit of the handler body.
"""
import ast

from .cfg import CFG, _walk_expr
from .index import FUNC


class Def:
    __slots__ = ("node", "var", "value", "kind", "target")

    def __init__(self, node, var, value, kind, target=None):
        self.node = node      # cfg node (None for parameters)
        self.var = var
        self.value = value    # ast expr assigned, or None if not simple
        self.kind = kind      # param|assign|aug|for|with|except|unbind|
                              # unpack|import|def|walrus|del
        self.target = target

    def __repr__(self):
        ln = self.node.lineno if self.node is not None else 0
        return f"<def {self.var} {self.kind}@{ln}>"


def target_vars(t, value=None, kind="assign"):
    """yield (var, value expr or None, kind, target node)"""
    if isinstance(t, ast.Name):
        yield t.id, value, kind, t
    elif isinstance(t, ast.Attribute) and isinstance(t.value, ast.Name) \
            and t.value.id == "self":
        yield "self." + t.attr, value, kind, t
    elif isinstance(t, (ast.Tuple, ast.List)):
        if value is not None and isinstance(value, (ast.Tuple, ast.List)) \
                and len(value.elts) == len(t.elts) and not any(
                    isinstance(e, ast.Starred) for e in t.elts + value.elts):
            for tt, vv in zip(t.elts, value.elts):
                yield from target_vars(tt, vv, kind)
        else:
            for i, tt in enumerate(t.elts):
                if isinstance(tt, ast.Starred):
                    tt = tt.value
                for var, _, _, tn in target_vars(tt, None, "unpack"):
                    yield var, ("unpack", value, i), "unpack", tn
    elif isinstance(t, ast.Starred):
        yield from target_vars(t.value, None, "unpack")


def node_defs(n):
    """definitions made by cfg node n"""
    out = []
    s = n.stmt
    if n.kind == "stmt":
        if isinstance(s, ast.Assign):
            for t in s.targets:
                for var, val, kind, tn in target_vars(t, s.value):
                    out.append(Def(n, var, val, kind, tn))
        elif isinstance(s, ast.AugAssign):
            for var, val, kind, tn in target_vars(s.target, None, "aug"):
                out.append(Def(n, var, s, "aug", tn))
        elif isinstance(s, ast.AnnAssign) and s.value is not None:
            for var, val, kind, tn in target_vars(s.target, s.value):
                out.append(Def(n, var, val, kind, tn))
        elif isinstance(s, (ast.Import, ast.ImportFrom)):
            for a in s.names:
                out.append(Def(n, (a.asname or a.name).split(".")[0], None,
                               "import"))
        elif isinstance(s, ast.Delete):
            for t in s.targets:
                for var, _, _, tn in target_vars(t):
                    out.append(Def(n, var, None, "del", tn))
    elif n.kind == "def":
        out.append(Def(n, s.name, None, "def"))
    elif n.kind == "iter":
        for var, val, kind, tn in target_vars(s.target, None, "for"):
            out.append(Def(n, var, ("iter", s.iter), "for", tn))
    elif n.kind == "with_enter":
        item = s.items[n.tag]
        if item.optional_vars is not None:
            for var, val, kind, tn in target_vars(item.optional_vars, None,
                                                  "with"):
                out.append(Def(n, var, ("with", item.context_expr), "with",
                               tn))
    elif n.kind == "except":
        h = n.tag
        if h.name:
            out.append(Def(n, h.name, None, "except"))
    elif n.kind == "case":
        for x in ast.walk(n.tag.pattern):
            nm = getattr(x, "name", None) if isinstance(
                x, (ast.MatchAs, ast.MatchStar)) else getattr(
                    x, "rest", None) if isinstance(x, ast.MatchMapping) \
                else None
            if nm:
                out.append(Def(n, nm, None, "pattern"))
    # walrus anywhere in the node's expression
    if n.expr is not None:
        for x in _walk_expr(n.expr):
            if isinstance(x, ast.NamedExpr):
                out.append(Def(n, x.target.id, x.value, "walrus", x.target))
    return out


class ReachingDefs:
    def __init__(self, cfg):
        self.cfg = cfg
        f = cfg.func
        self.params = []
        a = f.args
        for p in a.posonlyargs + a.args + a.kwonlyargs:
            self.params.append(Def(None, p.arg, None, "param"))
        if a.vararg:
            self.params.append(Def(None, a.vararg.arg, None, "param"))
        if a.kwarg:
            self.params.append(Def(None, a.kwarg.arg, None, "param"))
        self.defs = {n.id: node_defs(n) for n in cfg.nodes}
        # the unbinding of `except ... as name` at the end of the handler:
        # every edge that leaves the handler body kills the name.
        self.unbind_edges = {}  # (from id, to id) -> set(vars)
        self._handler_unbinds()
        self._solve()

    def _handler_unbinds(self):
        cfg = self.cfg
        for n in cfg.nodes:
            if n.kind != "except" or not n.tag.name:
                continue
            h = n.tag
            body_ids = set()
            body_stmts = set()
            for s in h.body:
                for x in ast.walk(s):
                    body_stmts.add(id(x))
            members = [m for m in cfg.nodes
                       if m is n or (m.stmt is not None and
                                     id(m.stmt) in body_stmts) or
                       (m.expr is not None and id(m.expr) in body_stmts)]
            mids = {m.id for m in members}
            for m in members:
                for t, label in m.succ:
                    if t.id not in mids:
                        self.unbind_edges.setdefault(
                            (m.id, t.id), set()).add(h.name)

    def _solve(self):
        cfg = self.cfg
        IN = {n.id: None for n in cfg.nodes}
        OUT = {n.id: None for n in cfg.nodes}
        entry_defs = {}
        for d in self.params:
            entry_defs.setdefault(d.var, set()).add(d)
        IN[cfg.entry.id] = entry_defs
        work = [cfg.entry]
        inq = {cfg.entry.id}
        self._unbound = Def(None, "?", None, "unbind")
        while work:
            n = work.pop()
            inq.discard(n.id)
            cur = IN[n.id] or {}
            out = dict(cur)
            for d in self.defs[n.id]:
                if d.kind == "aug":
                    out[d.var] = {d}
                else:
                    out[d.var] = {d}
            OUT[n.id] = out
            for m, label in n.succ:
                # an exception raised while the statement is evaluated
                # leaves before its targets are bound
                edge_out = cur if label == "exc" and n.kind in (
                    "stmt", "with_enter", "iter") else out
                ub = self.unbind_edges.get((n.id, m.id))
                if ub:
                    edge_out = dict(out)
                    for v in ub:
                        edge_out[v] = {Def(n, v, None, "unbind")}
                merged = _merge(IN[m.id], edge_out)
                if IN[m.id] is None or not _same(IN[m.id], merged):
                    IN[m.id] = merged
                    if m.id not in inq:
                        inq.add(m.id)
                        work.append(m)
        self.IN, self.OUT = IN, OUT

    def reaching(self, cfgnode, var):
        """definitions of var that reach the *start* of cfgnode; the
        set contains Def objects; kind "unbind" means the name was deleted
        on some path; an empty set means no definition in this function
        (a global, a closure variable, or unbound)"""
        d = self.IN.get(cfgnode.id) or {}
        return set(d.get(var, ()))

    def reaching_after(self, cfgnode, var):
        d = self.OUT.get(cfgnode.id) or {}
        return set(d.get(var, ()))

    def single_value(self, cfgnode, var):
        """if exactly one simple assignment reaches, its value expr"""
        ds = self.reaching(cfgnode, var)
        if len(ds) == 1:
            d = next(iter(ds))
            if d.kind in ("assign", "walrus") and isinstance(d.value,
                                                             ast.AST):
                return d.value
        return None


def _key(d):
    return (d.node.id if d.node is not None else -1, d.var, d.kind)


def _same(a, b):
    if a.keys() != b.keys():
        return False
    for k in a:
        if {_key(d) for d in a[k]} != {_key(d) for d in b[k]}:
            return False
    return True


def _merge(a, b):
    if a is None:
        return {k: set(v) for k, v in b.items()}
    out = {k: set(v) for k, v in a.items()}
    for k, v in b.items():
        if k in out:
            have = {_key(d) for d in out[k]}
            for d in v:
                if _key(d) not in have:
                    out[k].add(d)
        else:
            out[k] = set(v)
    # a variable defined on one incoming path only: keep as is (may-reach)
    return out


def uses_of(cfgnode, var):
    """Name/Attribute nodes in the cfg node that read var"""
    out = []
    if cfgnode.expr is None:
        return out
    for x in _walk_expr(cfgnode.expr):
        if isinstance(x, ast.Name) and x.id == var and isinstance(
                x.ctx, ast.Load):
            out.append(x)
        elif isinstance(x, ast.Attribute) and isinstance(x.value, ast.Name) \
                and x.value.id == "self" and "self." + x.attr == var \
                and isinstance(x.ctx, ast.Load):
            out.append(x)
    return out


def inline_locals(func_or_cfg, expr, at_node, rd, depth=6, stop=None):
    """substitute single reaching simple definitions of local names into
    `expr` (evaluated at cfg node at_node); returns a new expression.
    Names with several reaching definitions, parameters and unpack targets
    are left alone."""
    from .match import clone

    def sub(e, node, d):
        if d <= 0:
            return e

        class T(ast.NodeTransformer):
            def visit_Name(self, n):
                if not isinstance(n.ctx, ast.Load):
                    return n
                if stop and n.id in stop:
                    return n
                ds = rd.reaching(node, n.id)
                if len(ds) == 1:
                    df = next(iter(ds))
                    if df.kind == "assign" and isinstance(df.value, ast.AST) \
                            and df.node is not None:
                        return sub(clone(df.value), df.node, d - 1)
                return n

            def visit_Lambda(self, n):
                return n
        return T().visit(e)
    return sub(clone(expr), at_node, depth)
