"""Abstract interpretation of the DSL's operator algebra (used by C01-C03,
C06, C07).

The dunder methods of ebpfcat.ebpf.Expression and its subclasses *build*
expression objects (Binary, Constant, SimpleComparison ...).  Which object is
built depends only on the operand kinds - class, ``signed``, ``fixed``,
``long``, format letter, and for Python numbers: int or float, sign,
magnitude class.  This module folds those methods with the evaluator on
abstract operands (objects whose only known fields are these flags) for
every combination of kinds, and turns the object graph that results into a
*raw-value term*: the integer the generated code will hold, as an
expression over the operands' real values and powers of FIXED_BASE.

A term is (tree, k): raw = tree * FIXED_BASE**k.  Operand X of real value x
with fixed flag f has raw x * B**f, i.e. ("x", f).
"""
import ast

from .evalx import (Evaluator, Obj, Opaque, Unknown, Raised, EnumVal, Flags,
                    ClassRef)
from .index import AnalysisError

EBPF = "ebpfcat.ebpf."


class Ctx:
    def __init__(self, repo):
        self.repo = repo
        self.ev = Evaluator(repo, "ebpfcat.ebpf")
        self.ev._self = None
        self.Expression = repo.cls(EBPF + "Expression")
        self.base = self.ev.class_attr(self.Expression, "FIXED_BASE")
        if not isinstance(self.base, int) or self.base < 2:
            raise AnalysisError("Expression.FIXED_BASE is not an integer")
        self.ebpf = Opaque("ebpf")
        self.opcode = {m.canon: m for m in self.ev.enum_members(
            repo.cls(EBPF + "Opcode")).values()}

    def cls(self, name):
        return self.repo.cls(EBPF + name)

    # ------------------------------------------------------- operands
    def expr(self, label, signed, fixed):
        """a generic DSL expression of unknown structure"""
        o = Obj(self.cls("Expression"), {"ebpf": self.ebpf, "signed": signed,
                                         "fixed": fixed, "_label": label})
        return o

    def register(self, label, long, signed, fixed, no=3):
        return Obj(self.cls("Register"), {
            "ebpf": self.ebpf, "no": no, "long": long, "signed": signed,
            "fixed": fixed, "_label": label})

    def memory(self, label, fmt):
        return Obj(self.cls("Memory"), {
            "ebpf": self.ebpf, "fmt": fmt, "address": Obj(
                self.cls("Expression"), {"ebpf": self.ebpf, "signed": False,
                                         "fixed": False, "_label": "addr"}),
            "_label": label})

    def flag(self, o, name):
        try:
            return self.ev.getattr(o, name)
        except (Unknown, Raised) as e:
            raise AnalysisError(f"cannot read .{name} of {o!r}: {e}")

    # --------------------------------------------------- applying ops
    def binop(self, op, a, b):
        """fold ``a <op> b`` through the repository's dunders"""
        return self.ev.binop(op, a, b)

    def unary(self, opname, a):
        m = self.ev._dunder(a, opname)
        if m is None:
            raise Raised(f"TypeError: no {opname}")
        return self.ev.call(m, [])

    def compare(self, op, a, b):
        return self.ev.compare(op, a, b)

    # ------------------------------------------------------- raw terms
    def term(self, o, labels, nums=None):
        """(tree, k, problems) of the raw value of object/number o; nums
        maps the labels of Python-number operands to their value"""
        probs = []
        self.nums = dict(nums or {})
        t = self._term(o, labels, probs)
        return t[0], t[1], probs

    def _num(self, v):
        """a number as tree * B**k with the power of B factored out"""
        if isinstance(v, bool):
            v = int(v)
        if isinstance(v, float) and v == int(v):
            v = int(v)
        k = 0
        if isinstance(v, int) and v != 0:
            while v % self.base == 0:
                v //= self.base
                k += 1
        return v, k

    def _term(self, o, labels, probs):
        B = self.base
        if isinstance(o, (int, float)):
            return self._num(o)
        if not isinstance(o, Obj):
            raise AnalysisError(f"no raw term for {o!r}")
        lab = o.fields.get("_label")
        if lab is not None and lab in labels:
            f = self.flag(o, "fixed")
            return lab, 1 if f else 0
        q = o.ci.qualname if o.ci else "?"
        isa = lambda n: self.repo.is_subclass(o.ci, EBPF + n)
        if isa("Constant"):
            v = o.fields.get("value")
            if isinstance(v, Obj):
                return self._term(v, labels, probs)
            if not isinstance(v, (int, float)):
                raise AnalysisError(f"Constant with value {v!r}")
            for lab2, real in self.nums.items():
                if real == 0:
                    continue
                r = v / real
                for k in range(0, 4):
                    if abs(r - B ** k) < 1e-6 * B ** k:
                        return lab2, k
            for lab2, real in self.nums.items():
                if real != 0 and v != 0 and isinstance(real, float) and \
                        abs(v / (real * B) - 1) < 1e-3:
                    probs.append(f"the decimal {real} is stored as {v} "
                                 f"instead of {round(real * B)}")
                    return lab2, 1
            return self._num(v)
        if isa("Binary"):
            l = self._term(o.fields["left"], labels, probs)
            r = self._term(o.fields["right"], labels, probs)
            op = o.fields.get("operator")
            name = op.canon if isinstance(op, EnumVal) else repr(op)
            if name in ("ADD", "SUB", "MOD"):
                if l[1] != r[1]:
                    probs.append(
                        f"{name} of operands with different scale: "
                        f"{self.show(l)} and {self.show(r)}")
                return (name, l[0], r[0]), max(l[1], r[1])
            if name == "MUL":
                if l[0] == 1:
                    return r[0], l[1] + r[1]
                if r[0] == 1:
                    return l[0], l[1] + r[1]
                return (name, l[0], r[0]), l[1] + r[1]
            if name == "DIV":
                if r[0] == 1:
                    return l[0], l[1] - r[1]
                return (name, l[0], r[0]), l[1] - r[1]
            if name in ("OR", "XOR", "AND"):
                if l[1] != r[1]:
                    probs.append(f"{name} of operands with different scale")
                return (name, l[0], r[0]), l[1]
            if name in ("LSH", "RSH", "ARSH"):
                if r[1] != 0:
                    probs.append("shift amount is scaled")
                return (name, l[0], r[0]), l[1]
            raise AnalysisError(f"Binary with operator {name}")
        if isa("Negate"):
            a = self._term(o.fields["arg"], labels, probs)
            return ("NEG", a[0]), a[1]
        if isa("Absolute"):
            a = self._term(o.fields["arg"], labels, probs)
            return ("ABS", a[0]), a[1]
        if isa("SwitchEndian"):
            return self._term(o.fields["arg"], labels, probs)
        raise AnalysisError(f"no raw term for object of class {q}")

    def show(self, t):
        return f"{t[0]}*B^{t[1]}" if t[1] else f"{t[0]}"
