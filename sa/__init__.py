"""Static analysis of tecki/ebpfcat: the engine and the per-property rules.

Nothing in this package imports or executes code from the repository under
analysis; everything is derived from its source text with the ast module."""
