"""E0 (continued) - undoing refactorings that only add names.

The rules describe the code in terms of the functions, constants and local
variables that exist on the tree they were written for (sa/refnames.json).
A maintainer who extracts a helper method, gives a magic number a name or
splits an expression into named temporaries does not change behaviour; for
the rules to see *the same program* these additions are folded back before
any rule runs - the classic compiler passes, restricted to names the
reference does not know, so the reference tree itself is never touched:

inline_constants   NAME = <literal> at module or class level, bound once
                   -> every read is replaced by the literal
inline_helpers     a call of a function/method that the reference does not
                   know, defined in the same class or module, is replaced by
                   its body (statement calls, `x = h()`, `return h()`,
                   single-expression helpers inside expressions, generator
                   helpers in a `for`), parameters substituted
inline_temporaries a local the reference does not know, assigned exactly
                   once from an expression without await/yield, is
                   substituted into its uses

Everything here is naming only: no rule's verdict is computed here, and a
construct the passes do not understand is simply left as it is (the rule
then meets an unknown shape and says so).
"""
import ast
import copy

FUNC = (ast.FunctionDef, ast.AsyncFunctionDef)


def _clone(node):
    return copy.deepcopy(node)


def _literal(v):
    """a constant expression worth inlining"""
    if isinstance(v, ast.Constant):
        return not isinstance(v.value, type(Ellipsis))
    if isinstance(v, ast.UnaryOp) and isinstance(v.op, (ast.USub, ast.Invert)):
        return _literal(v.operand)
    if isinstance(v, ast.BinOp):
        return _literal(v.left) and _literal(v.right)
    if isinstance(v, ast.Tuple):
        return all(_literal(e) for e in v.elts)
    return False


def _binds(func, name):
    """does the function (own scope) bind `name`?"""
    a = func.args
    for x in a.posonlyargs + a.args + a.kwonlyargs:
        if x.arg == name:
            return True
    if (a.vararg and a.vararg.arg == name) or (a.kwarg and a.kwarg.arg
                                                == name):
        return True
    for n in ast.walk(func):
        if isinstance(n, ast.Name) and n.id == name and isinstance(
                n.ctx, (ast.Store, ast.Del)):
            return True
    return False


# --------------------------------------------------------------- constants
def inline_constants(tree, modname, ref):
    known_mod = set(ref.get("module_names", {}).get(modname, []))
    n = 0
    # module level
    consts = {}
    counts = {}
    for st in tree.body:
        if isinstance(st, ast.Assign):
            for t in st.targets:
                if isinstance(t, ast.Name):
                    counts[t.id] = counts.get(t.id, 0) + 1
    for st in tree.body:
        if isinstance(st, ast.Assign) and len(st.targets) == 1 and isinstance(
                st.targets[0], ast.Name) and _literal(st.value):
            nm = st.targets[0].id
            if nm not in known_mod and counts.get(nm) == 1 and \
                    nm != "__all__":
                consts[nm] = st.value
    # not if any function declares it global
    for g in ast.walk(tree):
        if isinstance(g, ast.Global):
            for nm in g.names:
                consts.pop(nm, None)
    if consts:
        n += _subst_module_names(tree, consts)
    # class level
    known_cls = ref.get("class_attrs", {})
    quals = _class_quals(tree, modname)
    for cls in [c for c in ast.walk(tree) if isinstance(c, ast.ClassDef)]:
        q = quals[id(cls)]
        known = set(known_cls.get(q, []))
        cc = {}
        for st in cls.body:
            if isinstance(st, ast.Assign) and len(st.targets) == 1 and \
                    isinstance(st.targets[0], ast.Name) and _literal(
                        st.value) and st.targets[0].id not in known:
                cc[st.targets[0].id] = st.value
        if not cc:
            continue
        # assigned anywhere else (self.X = ..., Cls.X = ...) -> leave alone
        for x in ast.walk(tree):
            if isinstance(x, ast.Attribute) and isinstance(
                    x.ctx, (ast.Store, ast.Del)) and x.attr in cc:
                cc.pop(x.attr, None)
        if cc:
            n += _subst_class_attrs(tree, cls, cc)
    return n


def _class_quals(tree, modname):
    """id(ClassDef) -> qualified name, in one traversal"""
    out = {}

    def rec(node, path):
        for c in ast.iter_child_nodes(node):
            if isinstance(c, ast.ClassDef):
                out[id(c)] = modname + "." + ".".join(path + [c.name])
                rec(c, path + [c.name])
            elif isinstance(c, FUNC):
                rec(c, path + [c.name])
            elif isinstance(c, ast.stmt):
                rec(c, path)
    rec(tree, [])
    return out


def _class_qual(tree, cls, modname):
    names = []

    def rec(node, path):
        for c in ast.iter_child_nodes(node):
            if c is cls:
                names.extend(path + [cls.name])
                return True
            if isinstance(c, ast.ClassDef):
                if rec(c, path + [c.name]):
                    return True
            elif isinstance(c, FUNC):
                if rec(c, path + [c.name]):
                    return True
            else:
                if rec(c, path):
                    return True
        return False
    rec(tree, [])
    return modname + "." + ".".join(names)


class _ModSubst(ast.NodeTransformer):
    def __init__(self, consts):
        self.consts = consts
        self.shadow = [set()]
        self.n = 0

    def visit_Name(self, node):
        if isinstance(node.ctx, ast.Load) and node.id in self.consts \
                and node.id not in self.shadow[-1]:
            self.n += 1
            return ast.copy_location(_clone(self.consts[node.id]), node)
        return node

    def _scope(self, node):
        sh = set(self.shadow[-1])
        for nm in self.consts:
            if isinstance(node, FUNC) and _binds(node, nm):
                sh.add(nm)
        self.shadow.append(sh)
        self.generic_visit(node)
        self.shadow.pop()
        return node
    visit_FunctionDef = visit_AsyncFunctionDef = _scope


def _subst_module_names(tree, consts):
    t = _ModSubst(consts)
    for i, st in enumerate(tree.body):
        if isinstance(st, ast.Assign) and len(st.targets) == 1 and isinstance(
                st.targets[0], ast.Name) and st.targets[0].id in consts:
            continue
        tree.body[i] = t.visit(st)
    return t.n


def _subst_class_attrs(tree, cls, cc):
    n = 0

    class T(ast.NodeTransformer):
        def visit_Attribute(self, node):
            nonlocal n
            self.generic_visit(node)
            if isinstance(node.ctx, ast.Load) and node.attr in cc:
                b = node.value
                if (isinstance(b, ast.Name) and b.id in ("self", "cls",
                                                         cls.name)) or (
                        isinstance(b, ast.Call) and isinstance(
                            b.func, ast.Name) and b.func.id == "type"):
                    n += 1
                    return ast.copy_location(_clone(cc[node.attr]), node)
            return node
    t = T()
    for i, st in enumerate(tree.body):
        tree.body[i] = t.visit(st)
    # bare names inside the class body itself
    for st in cls.body:
        if isinstance(st, FUNC + (ast.ClassDef,)):
            continue
        for x in ast.walk(st):
            for f, v in ast.iter_fields(x):
                if isinstance(v, ast.Name) and isinstance(
                        v.ctx, ast.Load) and v.id in cc:
                    setattr(x, f, ast.copy_location(_clone(cc[v.id]), v))
                    n += 1
    return n


def inline_namedtuples(tree, modname, ref):
    """a NamedTuple class the reference does not know: its constructor
    calls are the tuples they stand for"""
    known = set(ref.get("module_names", {}).get(modname, []))
    classes = {}
    for st in tree.body:
        if isinstance(st, ast.ClassDef) and st.name not in known and any(
                (ast.unparse(b).split(".")[-1] == "NamedTuple")
                for b in st.bases):
            fields = [x.target.id for x in st.body if isinstance(
                x, ast.AnnAssign) and isinstance(x.target, ast.Name)]
            if fields and not any(isinstance(x, FUNC) for x in st.body):
                classes[st.name] = fields
    # X = namedtuple("X", ["a", "b"]) / namedtuple("X", "a b")
    for st in tree.body:
        if isinstance(st, ast.Assign) and len(st.targets) == 1 and isinstance(
                st.targets[0], ast.Name) and st.targets[0].id not in known \
                and isinstance(st.value, ast.Call) and ast.unparse(
                    st.value.func).split(".")[-1] == "namedtuple" and len(
                        st.value.args) == 2 and not st.value.keywords:
            spec = st.value.args[1]
            fields = None
            if isinstance(spec, ast.Constant) and isinstance(spec.value, str):
                fields = spec.value.replace(",", " ").split()
            elif isinstance(spec, (ast.List, ast.Tuple)) and all(
                    isinstance(e, ast.Constant) and isinstance(e.value, str)
                    for e in spec.elts):
                fields = [e.value for e in spec.elts]
            if fields:
                classes[st.targets[0].id] = fields
    if not classes:
        return 0
    n = 0
    # a local that is only ever read through the fields of one of these
    # tuples, bound once by a for loop or a plain assignment: the binding
    # unpacks, the field reads become the names
    bysig = {}
    for cname, fields in classes.items():
        bysig[cname] = set(fields)
    for func in [x for x in ast.walk(tree) if isinstance(x, FUNC)]:
        locs = {x.id for x in ast.walk(func) if isinstance(x, ast.Name)} | {
            a.arg for a in ast.walk(func) if isinstance(a, ast.arg)}
        cands = {}
        for x in ast.walk(func):
            if isinstance(x, ast.Name) and isinstance(x.ctx, ast.Store):
                cands.setdefault(x.id, []).append(x)
        for name, stores in cands.items():
            loads = [x for x in ast.walk(func) if isinstance(x, ast.Name)
                     and x.id == name and isinstance(x.ctx, ast.Load)]
            if not loads:
                continue
            attrs = []
            ok = True
            for l in loads:
                par = None
                for y in ast.walk(func):
                    if isinstance(y, ast.Attribute) and y.value is l:
                        par = y
                if par is None or not isinstance(par.ctx, ast.Load):
                    ok = False
                    break
                attrs.append(par)
            if not ok:
                continue
            used = {a.attr for a in attrs}
            owners = [c for c, fs in bysig.items() if used <= fs]
            if len(owners) != 1:
                continue
            fields = classes[owners[0]]
            # the binding statements
            binds = []
            for st0 in stores:
                bind = None
                for y in ast.walk(func):
                    if isinstance(y, (ast.For, ast.AsyncFor)) and \
                            y.target is st0:
                        bind = ("for", y)
                    elif isinstance(y, ast.Assign) and len(y.targets) == 1 \
                            and y.targets[0] is st0 and not isinstance(
                                y.value, (ast.Tuple, ast.List)):
                        bind = ("assign", y)
                binds.append(bind)
            if not binds or any(b is None for b in binds):
                continue
            names = {}
            for f_ in fields:
                nm = f_ if f_ not in locs else f"{name}_{f_}"
                if nm in locs:
                    nm = f"_{name}_{f_}"
                names[f_] = nm
            for st0, bind in zip(stores, binds):
                tgt = ast.Tuple(elts=[ast.Name(names[f_], ast.Store())
                                      for f_ in fields], ctx=ast.Store())
                ast.copy_location(tgt, st0)
                if bind[0] == "for":
                    bind[1].target = tgt
                else:
                    bind[1].targets = [tgt]
                    v = bind[1].value
                    # X._make(E) is E
                    if isinstance(v, ast.Call) and isinstance(
                            v.func, ast.Attribute) and v.func.attr == \
                            "_make" and isinstance(v.func.value, ast.Name) \
                            and v.func.value.id in classes and len(
                                v.args) == 1:
                        bind[1].value = v.args[0]
            amap = {id(a): a for a in attrs}

            class A(ast.NodeTransformer):
                def visit_Attribute(self, node):
                    if id(node) in amap:
                        return ast.copy_location(ast.Name(
                            names[node.attr], ast.Load()), node)
                    return self.generic_visit(node)
            func.body = [A().visit(b) for b in func.body]
            ast.fix_missing_locations(func)
            locs |= set(names.values())
            n += 1

    # attrgetter("size") in a function that builds such tuples, the field
    # belonging to that class alone: `lambda t: t[0]`
    for func in [x for x in ast.walk(tree) if isinstance(x, FUNC)]:
        built = {x.func.id for x in ast.walk(func) if isinstance(
            x, ast.Call) and isinstance(x.func, ast.Name)
            and x.func.id in classes}
        if not built:
            continue
        for x in ast.walk(func):
            if isinstance(x, ast.Call) and ast.unparse(x.func).split(
                    ".")[-1] == "attrgetter" and len(x.args) == 1 and \
                    not x.keywords and isinstance(
                        x.args[0], ast.Constant) and isinstance(
                            x.args[0].value, str):
                owners = [c for c in classes if x.args[0].value
                          in classes[c]]
                if len(owners) == 1 and owners[0] in built:
                    idx = classes[owners[0]].index(x.args[0].value)
                    lam = ast.parse(f"lambda t: t[{idx}]",
                                    mode="eval").body
                    for y in ast.walk(func):
                        for fld, val in ast.iter_fields(y):
                            if val is x:
                                setattr(y, fld, ast.copy_location(lam, x))
                            elif isinstance(val, list):
                                for i, v in enumerate(val):
                                    if v is x:
                                        val[i] = ast.copy_location(lam, x)
                    n += 1

    class T(ast.NodeTransformer):
        def visit_Call(self, node):
            nonlocal n
            self.generic_visit(node)
            if isinstance(node.func, ast.Name) and node.func.id in classes \
                    and not any(isinstance(a, ast.Starred)
                                for a in node.args):
                fields = classes[node.func.id]
                vals = dict(zip(fields, node.args))
                for k in node.keywords:
                    if k.arg is None or k.arg not in fields or k.arg in vals:
                        return node
                    vals[k.arg] = k.value
                if len(vals) != len(fields):
                    return node
                n += 1
                return ast.copy_location(ast.Tuple(
                    elts=[vals[f] for f in fields], ctx=ast.Load()), node)
            return node
    T().visit(tree)
    if n:
        ast.fix_missing_locations(tree)
    return n


# ----------------------------------------------------------------- helpers
def _body_no_doc(func):
    b = func.body
    if b and isinstance(b[0], ast.Expr) and isinstance(
            b[0].value, ast.Constant) and isinstance(b[0].value.value, str):
        return b[1:]
    return b


def _decorators(func):
    out = set()
    for d in func.decorator_list:
        out.add(ast.unparse(d).split("(")[0].split(".")[-1])
    return out


def _is_generator(func):
    for n in _walk_own(func):
        if isinstance(n, (ast.Yield, ast.YieldFrom)):
            return True
    return False


def _walk_own(func):
    """nodes of the function's own scope"""
    stack = list(func.body)
    while stack:
        n = stack.pop()
        yield n
        for c in ast.iter_child_nodes(n):
            if isinstance(c, FUNC + (ast.Lambda, ast.ClassDef)):
                continue
            stack.append(c)


def _own_defs(func):
    """(statement list, def) for the functions defined in the function's
    own blocks (not inside further nested functions)"""
    out = []

    def rec(lst):
        for st in lst:
            if isinstance(st, FUNC):
                out.append((lst, st))
                continue
            if isinstance(st, ast.ClassDef):
                continue
            for fld in ("body", "orelse", "finalbody"):
                sub = getattr(st, fld, None)
                if isinstance(sub, list) and sub and isinstance(
                        sub[0], ast.stmt):
                    rec(sub)
            if isinstance(st, ast.Try):
                for h in st.handlers:
                    rec(h.body)
    rec(func.body)
    return out


def _returns(func):
    return [n for n in _walk_own(func) if isinstance(n, ast.Return)]


class _ParamSubst(ast.NodeTransformer):
    def __init__(self, mapping):
        self.mapping = mapping

    def visit_Name(self, node):
        if node.id in self.mapping and isinstance(node.ctx, ast.Load):
            return ast.copy_location(_clone(self.mapping[node.id]), node)
        return node


def _simple_arg(e):
    return isinstance(e, (ast.Name, ast.Constant)) or (
        isinstance(e, ast.Attribute) and _simple_arg(e.value))


def _bind_args(helper, call, is_method_call):
    """parameter name -> argument expression, or None"""
    a = helper.args
    if a.vararg or a.kwarg or a.posonlyargs:
        return None
    params = [x.arg for x in a.args]
    deco = _decorators(helper)
    if "staticmethod" in deco:
        pass
    elif is_method_call:
        if not params:
            return None
        recv_param, params = params[0], params[1:]   # self / cls
    if any(isinstance(x, ast.Starred) for x in call.args) or any(
            k.arg is None for k in call.keywords):
        return None
    if len(call.args) > len(params):
        return None
    m = {}
    for p, v in zip(params, call.args):
        m[p] = v
    for k in call.keywords:
        if k.arg not in params + [x.arg for x in a.kwonlyargs] or k.arg in m:
            return None
        m[k.arg] = k.value
    # defaults
    defaults = dict(zip([x.arg for x in a.args][-len(a.defaults):]
                        if a.defaults else [], a.defaults))
    for x, d in zip(a.kwonlyargs, a.kw_defaults):
        if d is not None:
            defaults[x.arg] = d
    for p in params + [x.arg for x in a.kwonlyargs]:
        if p not in m:
            if p in defaults:
                m[p] = defaults[p]
            else:
                return None
    if is_method_call and "staticmethod" not in deco and isinstance(
            call.func, ast.Attribute):
        # the receiver: `Class.helper(...)` of a classmethod binds `cls`
        recv = call.func.value
        if not (isinstance(recv, ast.Name) and recv.id == recv_param):
            if not isinstance(recv, ast.Name):
                return None
            if "classmethod" in deco and recv.id == "self":
                recv = ast.Call(func=ast.Name("type", ast.Load()),
                                args=[ast.Name("self", ast.Load())],
                                keywords=[])
            if recv_param in m:
                return None
            m[recv_param] = recv
    return m


def _assigned_params(helper, names):
    for n in _walk_own(helper):
        if isinstance(n, ast.Name) and isinstance(
                n.ctx, (ast.Store, ast.Del)) and n.id in names:
            return True
    return False


def _prepare_body(helper, call, is_method_call):
    """(prologue assignments, body statements) with parameters replaced"""
    m = _bind_args(helper, call, is_method_call)
    if m is None:
        return None
    body = [_clone(s) for s in _body_no_doc(helper)]
    pro = []
    direct = {}
    reassigned = {p for p in m if _assigned_params(helper, {p})}
    for p, v in m.items():
        if _simple_arg(v) and p not in reassigned:
            direct[p] = v
        else:
            # count the uses: a parameter used once takes the expression
            uses = sum(1 for s in body for n in ast.walk(s)
                       if isinstance(n, ast.Name) and n.id == p
                       and isinstance(n.ctx, ast.Load))
            if uses <= 1 and p not in reassigned:
                direct[p] = v
            else:
                pro.append(ast.Assign(targets=[ast.Name(p, ast.Store())],
                                      value=_clone(v)))
    if direct:
        t = _ParamSubst(direct)
        body = [t.visit(s) for s in body]
    for s in pro + body:
        ast.copy_location(s, call)
        ast.fix_missing_locations(s)
    return pro, body


def _resolve(call, owner_cls, classes, modfuncs, known):
    """(helper def, is_method_call) if the callee is a function the
    reference does not know, defined in this module"""
    f = call.func
    if isinstance(f, ast.Name):
        h = modfuncs.get(f.id)
        if h is not None and h[0] not in known:
            return h[1], False
        return None
    if isinstance(f, ast.Attribute) and isinstance(f.value, ast.Name):
        base = f.value.id
        cls = None
        if base in ("self", "cls") and owner_cls is not None:
            cls = owner_cls
        elif base in classes:
            cls = base
        if cls is None:
            return None
        h = classes[cls].get(f.attr)
        if h is None and base in ("self", "cls"):
            # inherited from a base class of this module, and defined by
            # that class alone (no override anywhere)
            definers = [c for c, d in classes.items()
                        if c != "__bases__" and f.attr in d]
            seen, todo = set(), list(classes.get("__bases__", {}).get(
                cls, []))
            while todo:
                b = todo.pop()
                if b in seen:
                    continue
                seen.add(b)
                todo += classes.get("__bases__", {}).get(b, [])
            if len(definers) == 1 and definers[0] in seen:
                h = classes[definers[0]][f.attr]
        if h is None or h[0] in known:
            return None
        if "property" in _decorators(h[1]):
            return None
        return h[1], base in ("self", "cls") or "classmethod" in _decorators(
            h[1])
    return None


def renest_lifted(tree, modname, ref):
    """a closure the reference knows as `F.g` that has been lifted out of F
    (a staticmethod or a module-level function of another name, used by F
    only): a copy is put back into F under its old name and F's references
    to the lifted function are redirected to it"""
    from .normalize import function_table
    known = set(ref.get("functions", []))
    table = function_table(tree, modname)
    n = 0
    for q, f in list(table.items()):
        if q not in known:
            continue
        missing = [k for k in known if k.startswith(q + ".")
                   and "." not in k[len(q) + 1:] and "#" not in k
                   and k not in table]
        if len(missing) != 1:
            continue
        gname = missing[0].rsplit(".", 1)[1]
        # which unknown functions does F refer to
        owner = None
        parts = q[len(modname) + 1:].split(".")
        cls = None
        if len(parts) >= 2:
            cls = next((c for c in tree.body if isinstance(c, ast.ClassDef)
                        and c.name == parts[0]), None)
        cands = []
        for x in _walk_own(f):
            h = None
            if isinstance(x, ast.Attribute) and isinstance(
                    x.value, ast.Name) and cls is not None and x.value.id in (
                        "self", cls.name):
                h = next((m for m in cls.body if isinstance(m, FUNC)
                          and m.name == x.attr), None)
                hq = f"{modname}.{cls.name}.{x.attr}"
            elif isinstance(x, ast.Name) and isinstance(x.ctx, ast.Load):
                h = next((m for m in tree.body if isinstance(m, FUNC)
                          and m.name == x.id), None)
                hq = f"{modname}.{x.id}"
            if h is not None and hq not in known and h is not f and not any(
                    h is c for c, _ in cands):
                cands.append((h, hq))
        if len(cands) != 1:
            continue
        h, hq = cands[0]
        decos = _decorators(h)
        in_class = cls is not None and h in cls.body
        if any(d not in ("staticmethod",) for d in decos):
            continue
        args = _clone(h.args)
        if in_class and "staticmethod" not in decos:
            # a plain method: its `self` is F's `self`
            if not args.args or not f.args.args or \
                    args.args[0].arg != f.args.args[0].arg:
                continue
            args.args = args.args[1:]
        # used by F only
        inside = {id(x) for x in ast.walk(f)} | {id(x) for x in ast.walk(h)}
        elsewhere = False
        for x in ast.walk(tree):
            if id(x) in inside:
                continue
            if (isinstance(x, ast.Attribute) and x.attr == h.name) or (
                    isinstance(x, ast.Name) and x.id == h.name):
                elsewhere = True
        if elsewhere:
            continue
        if any(isinstance(x, ast.Name) and x.id == gname
               for x in ast.walk(f)):
            continue
        g = type(h)(name=gname, args=args,
                    body=[_clone(b) for b in h.body], decorator_list=[],
                    returns=None, type_comment=None)
        if hasattr(h, "type_params"):
            g.type_params = []
        ast.copy_location(g, f.body[0])

        class R(ast.NodeTransformer):
            def visit_FunctionDef(self, node):
                return node if node is g else self.generic_visit(node)
            visit_AsyncFunctionDef = visit_FunctionDef

            def visit_Attribute(self, node):
                self.generic_visit(node)
                if in_class and node.attr == h.name and isinstance(
                        node.value, ast.Name) and node.value.id in (
                            "self", cls.name):
                    return ast.copy_location(ast.Name(gname, ast.Load()),
                                             node)
                return node

            def visit_Name(self, node):
                if not in_class and node.id == h.name and isinstance(
                        node.ctx, ast.Load):
                    return ast.copy_location(ast.Name(gname, ast.Load()),
                                             node)
                return node
        f.body = [R().visit(b) for b in f.body]
        at = 1 if f.body and isinstance(f.body[0], ast.Expr) and isinstance(
            f.body[0].value, ast.Constant) and isinstance(
                f.body[0].value.value, str) else 0
        f.body.insert(at, g)
        ast.fix_missing_locations(f)
        n += 1
    return n


def expand_partialmethods(tree):
    """`name = partialmethod(f, a, b)` in a class body is `def name(self,
    <the remaining parameters of f>): return self.f(a, b, <them>)`"""
    n = 0
    for cls in [x for x in ast.walk(tree) if isinstance(x, ast.ClassDef)]:
        meths = {m.name: m for m in cls.body if isinstance(m, FUNC)}
        for i, st in enumerate(cls.body):
            if not (isinstance(st, ast.Assign) and len(st.targets) == 1
                    and isinstance(st.targets[0], ast.Name) and isinstance(
                        st.value, ast.Call) and ast.unparse(
                            st.value.func).split(".")[-1] == "partialmethod"
                    and st.value.args and isinstance(
                        st.value.args[0], ast.Name)
                    and st.value.args[0].id in meths
                    and not st.value.keywords):
                continue
            f = meths[st.value.args[0].id]
            bound = st.value.args[1:]
            a = f.args
            if a.vararg or a.kwarg or a.kwonlyargs or a.posonlyargs or \
                    a.defaults or len(a.args) < 1 + len(bound) or isinstance(
                        f, ast.AsyncFunctionDef):
                continue
            rest = a.args[1 + len(bound):]
            call = ast.Call(func=ast.Attribute(
                value=ast.Name(a.args[0].arg, ast.Load()), attr=f.name,
                ctx=ast.Load()), args=list(bound) + [
                    ast.Name(p_.arg, ast.Load()) for p_ in rest], keywords=[])
            new = ast.FunctionDef(
                name=st.targets[0].id, args=ast.arguments(
                    posonlyargs=[], args=[ast.arg(a.args[0].arg)] + [
                        ast.arg(p_.arg) for p_ in rest], kwonlyargs=[],
                    kw_defaults=[], defaults=[]),
                body=[ast.Return(value=call)], decorator_list=[],
                returns=None, type_comment=None)
            if hasattr(f, "type_params"):
                new.type_params = []
            ast.copy_location(new, st)
            ast.fix_missing_locations(new)
            cls.body[i] = new
            n += 1
    return n


def inline_helpers(tree, modname, ref, rounds=3):
    known = set(ref.get("functions", []))
    total = renest_lifted(tree, modname, ref)
    total += expand_partialmethods(tree)
    for _ in range(rounds):
        classes = {}
        modfuncs = {}
        for st in tree.body:
            if isinstance(st, FUNC):
                modfuncs[st.name] = (f"{modname}.{st.name}", st)
            elif isinstance(st, ast.ClassDef):
                d = {}
                for m in st.body:
                    if isinstance(m, FUNC):
                        d[m.name] = (f"{modname}.{st.name}.{m.name}", m)
                classes[st.name] = d
                classes.setdefault("__bases__", {})[st.name] = [
                    b.id for b in st.bases if isinstance(b, ast.Name)]
        n = 0
        # properties the reference does not know: `self.p` -> expression
        n += _inline_properties(tree, modname, classes, known)
        from .normalize import function_table
        quals = {id(f): q for q, f in function_table(tree, modname).items()}
        for owner, func in _functions_with_owner(tree):
            n += _inline_in_function(func, owner, classes, modfuncs, known,
                                     quals.get(id(func)))
        # local closures every call of which was inlined
        for owner, func in _functions_with_owner(tree):
            q = quals.get(id(func))
            if not q:
                continue
            for lst, st in _own_defs(func):
                if f"{q}.{st.name}" in known:
                    continue
                inside = {id(x) for x in ast.walk(st)}
                if not any(isinstance(x, ast.Name) and x.id == st.name
                           and id(x) not in inside for x in ast.walk(func)):
                    lst.remove(st)
                    if not lst:
                        lst.append(ast.copy_location(ast.Pass(), st))
        total += n
        if not n:
            break
    if total:
        _drop_dead_helpers(tree, modname, known)
        _drop_identity_assignments(tree)
        _flatten_starred(tree)
        operator_calls(tree)
    return total


_OPERATOR = {"lt": ast.Lt, "gt": ast.Gt, "le": ast.LtE, "ge": ast.GtE,
             "eq": ast.Eq, "ne": ast.NotEq, "is_": ast.Is,
             "is_not": ast.IsNot, "add": ast.Add, "sub": ast.Sub,
             "mul": ast.Mult, "and_": ast.BitAnd, "or_": ast.BitOr,
             "xor": ast.BitXor, "lshift": ast.LShift, "rshift": ast.RShift,
             "floordiv": ast.FloorDiv, "truediv": ast.Div, "mod": ast.Mod}


def operator_calls(tree):
    """`lt(a, b)` / `operator.lt(a, b)` -> `a < b`"""
    names = {}
    mods = set()
    for st in tree.body:
        if isinstance(st, ast.ImportFrom) and st.module == "operator":
            for a in st.names:
                if a.name in _OPERATOR:
                    names[a.asname or a.name] = a.name
        elif isinstance(st, ast.Import):
            for a in st.names:
                if a.name == "operator":
                    mods.add(a.asname or "operator")
    n = 0

    class G(ast.NodeTransformer):
        # getattr(x, "name") with a literal name is x.name
        def visit_Call(self, node):
            nonlocal n
            self.generic_visit(node)
            if isinstance(node.func, ast.Name) and node.func.id == \
                    "getattr" and len(node.args) == 2 and not \
                    node.keywords and isinstance(
                        node.args[1], ast.Constant) and isinstance(
                            node.args[1].value, str) and \
                    node.args[1].value.isidentifier():
                n += 1
                return ast.copy_location(ast.Attribute(
                    value=node.args[0], attr=node.args[1].value,
                    ctx=ast.Load()), node)
            return node
    G().visit(tree)
    # setattr(x, "name", v) as a statement with a literal name is x.name = v
    for owner in list(ast.walk(tree)):
        for fld in ("body", "orelse", "finalbody"):
            lst = getattr(owner, fld, None)
            if not isinstance(lst, list):
                continue
            for i, st in enumerate(lst):
                if isinstance(st, ast.Expr) and isinstance(
                        st.value, ast.Call) and isinstance(
                            st.value.func, ast.Name) and \
                        st.value.func.id == "setattr" and len(
                            st.value.args) == 3 and not st.value.keywords \
                        and isinstance(st.value.args[1], ast.Constant) \
                        and isinstance(st.value.args[1].value, str) and \
                        st.value.args[1].value.isidentifier():
                    new = ast.Assign(targets=[ast.Attribute(
                        value=st.value.args[0], attr=st.value.args[1].value,
                        ctx=ast.Store())], value=st.value.args[2])
                    ast.copy_location(new, st)
                    ast.fix_missing_locations(new)
                    lst[i] = new
                    n += 1
    if not names and not mods:
        return n

    class T(ast.NodeTransformer):
        def visit_Call(self, node):
            nonlocal n
            self.generic_visit(node)
            f = node.func
            op = None
            if isinstance(f, ast.Name) and f.id in names:
                op = names[f.id]
            elif isinstance(f, ast.Attribute) and isinstance(
                    f.value, ast.Name) and f.value.id in mods and \
                    f.attr in _OPERATOR:
                op = f.attr
            if op is None or len(node.args) != 2 or node.keywords:
                return node
            cls = _OPERATOR[op]
            n += 1
            if issubclass(cls, ast.cmpop):
                new = ast.Compare(left=node.args[0], ops=[cls()],
                                  comparators=[node.args[1]])
            else:
                new = ast.BinOp(left=node.args[0], op=cls(),
                                right=node.args[1])
            return ast.copy_location(new, node)
    T().visit(tree)
    if n:
        ast.fix_missing_locations(tree)
    return n


def _flatten_starred(tree):
    """`(*(a, b), c)` -> `(a, b, c)`"""
    for node in ast.walk(tree):
        if isinstance(node, (ast.Tuple, ast.List)) and any(
                isinstance(e, ast.Starred) and isinstance(
                    e.value, (ast.Tuple, ast.List)) for e in node.elts):
            new = []
            for e in node.elts:
                if isinstance(e, ast.Starred) and isinstance(
                        e.value, (ast.Tuple, ast.List)):
                    new.extend(e.value.elts)
                else:
                    new.append(e)
            node.elts = new


def _drop_identity_assignments(tree):
    """`fmt, out = (fmt, out)` and `k = k`, left behind where a helper's
    return value carried the caller's own names"""
    for node in ast.walk(tree):
        for fld in ("body", "orelse", "finalbody"):
            lst = getattr(node, fld, None)
            if not isinstance(lst, list) or not lst or not isinstance(
                    lst[0], ast.stmt):
                continue
            keep = []
            for st in lst:
                if isinstance(st, ast.Assign) and len(st.targets) == 1:
                    t, v = st.targets[0], st.value
                    if isinstance(t, ast.Tuple) and isinstance(
                            v, ast.Tuple) and len(t.elts) == len(v.elts):
                        pairs = [(a, b) for a, b in zip(t.elts, v.elts)
                                 if ast.unparse(a) != ast.unparse(b)]
                        if not pairs:
                            continue
                        tnames = {ast.unparse(a) for a in t.elts}
                        indep = not any(ast.unparse(x) in tnames
                                        for _, b in pairs
                                        for x in ast.walk(b) if isinstance(
                                            x, (ast.Name, ast.Attribute)))
                        # stores into plain names have no effect of their
                        # own: with values that read none of the names that
                        # really change, the tuple assignment is the
                        # sequence of its parts
                        changed = {a.id for a, _ in pairs
                                   if isinstance(a, ast.Name)}
                        plain = len(changed) == len(pairs) and not any(
                            isinstance(x, ast.Name) and x.id in changed
                            for _, b in pairs for x in ast.walk(b)) and \
                            not any(isinstance(x, (ast.NamedExpr, ast.Await,
                                                   ast.Yield, ast.YieldFrom))
                                    for _, b in pairs for x in ast.walk(b))
                        if plain or indep and all(
                                isinstance(b, (ast.Name, ast.Constant,
                                               ast.Attribute))
                                for _, b in pairs):
                            for a, b in pairs:
                                keep.append(ast.copy_location(ast.Assign(
                                    targets=[a], value=b), st))
                            continue
                    elif ast.unparse(t) == ast.unparse(v):
                        continue
                keep.append(st)
            if not keep:
                keep = [ast.copy_location(ast.Pass(), lst[0])]
            lst[:] = keep
    ast.fix_missing_locations(tree)


def _drop_dead_helpers(tree, modname, known):
    """helpers the reference does not know and nobody refers to any more
    (every call was inlined) are removed, so that no rule analyses them as
    if they were entry points of their own"""
    holders = [(tree.body, modname)]
    for st in tree.body:
        if isinstance(st, ast.ClassDef):
            holders.append((st.body, f"{modname}.{st.name}"))
    for body, prefix in holders:
        for f in [x for x in body if isinstance(x, FUNC)]:
            q = f"{prefix}.{f.name}"
            if q in known or f.name.startswith("__"):
                continue
            inside = {id(x) for x in ast.walk(f)}
            from . import normalize as _nz
            refs = 1 if f.name in getattr(_nz, "EXTERNAL_REFS", ()) else 0
            for x in ast.walk(tree):
                if id(x) in inside:
                    continue
                if (isinstance(x, ast.Attribute) and x.attr == f.name) or (
                        isinstance(x, ast.Name) and x.id == f.name) or (
                        isinstance(x, ast.Constant) and x.value == f.name):
                    refs += 1
            if refs == 0:
                body.remove(f)
                if not body:
                    body.append(ast.Pass())


def _ends(stmts):
    if not stmts:
        return False
    last = stmts[-1]
    if isinstance(last, (ast.Return, ast.Raise)):
        return True
    if isinstance(last, ast.If) and last.orelse:
        return _ends(last.body) and _ends(last.orelse)
    return False


def _single_exit(stmts, target):
    """the statements with every `return E` turned into `target = E`, the
    code after a returning `if` moved into the other branch; None if the
    returns sit in loops, try blocks and the like"""
    out = []
    for i, st in enumerate(stmts):
        rest = stmts[i + 1:]
        if isinstance(st, ast.Return):
            out.append(ast.Assign(targets=[_clone(target)],
                                  value=st.value or ast.Constant(None)))
            return out
        has_ret = any(isinstance(x, ast.Return) for x in ast.walk(st))
        if not has_ret:
            out.append(st)
            continue
        if isinstance(st, ast.Try) and not st.finalbody and not any(
                isinstance(x, ast.Return) for b in st.body
                for x in ast.walk(b)) and all(
                    _ends(h.body) for h in st.handlers):
            # every handler leaves: what follows the try runs only when
            # nothing was raised - it is the try's else clause
            els = _single_exit(list(st.orelse) + rest, target)
            if els is None:
                return None
            hs = []
            for h in st.handlers:
                hb = _single_exit(h.body, target)
                if hb is None:
                    return None
                hs.append(ast.ExceptHandler(type=h.type, name=h.name,
                                            body=hb or [ast.Pass()]))
            out.append(ast.Try(body=st.body, handlers=hs, orelse=els,
                               finalbody=[]))
            return out
        if not isinstance(st, ast.If):
            return None
        if _ends(st.body):
            a = _single_exit(st.body, target)
            b = _single_exit(list(st.orelse) + rest, target)
        elif st.orelse and _ends(st.orelse):
            a = _single_exit(list(st.body) + rest, target)
            b = _single_exit(st.orelse, target)
        else:
            return None
        if a is None or b is None:
            return None
        out.append(ast.If(test=st.test, body=a or [ast.Pass()], orelse=b))
        return out
    return out


def _loop_exit(stmts, target):
    """`while True: ...; return E` (returns anywhere in the loop body but
    not inside a nested loop, no `break`) -> each `return E` becomes
    `target = E; break`"""
    if len(stmts) != 1 or not isinstance(stmts[0], ast.While) or not (
            isinstance(stmts[0].test, ast.Constant)
            and stmts[0].test.value is True) or stmts[0].orelse:
        return None
    lp = stmts[0]
    rets = [x for x in ast.walk(lp) if isinstance(x, ast.Return)]
    brks = [x for x in ast.walk(lp) if isinstance(x, ast.Break)]
    if not rets or brks or any(r.value is None for r in rets):
        return None
    for x in ast.walk(lp):
        if x is not lp and isinstance(x, (ast.While, ast.For, ast.AsyncFor)
                                      + FUNC + (ast.Lambda,)):
            if any(isinstance(y, ast.Return) for y in ast.walk(x)):
                return None

    def rep(lst):
        out = []
        for st in lst:
            if isinstance(st, ast.Return):
                out.append(ast.copy_location(ast.Assign(
                    targets=[_clone(target)], value=st.value), st))
                out.append(ast.copy_location(ast.Break(), st))
                continue
            for fld in ("body", "orelse", "finalbody"):
                sub = getattr(st, fld, None)
                if isinstance(sub, list) and sub and isinstance(
                        sub[0], ast.stmt):
                    setattr(st, fld, rep(sub))
            if isinstance(st, ast.Try):
                for h in st.handlers:
                    h.body = rep(h.body)
            out.append(st)
        return out
    lp.body = rep(lp.body)
    return [lp]


def _functions_with_owner(tree):
    out = []

    def rec(node, owner):
        for c in ast.iter_child_nodes(node):
            if isinstance(c, ast.ClassDef):
                rec(c, c.name if node is tree else None)
            elif isinstance(c, FUNC):
                out.append((owner, c))
                rec(c, owner)
            else:
                rec(c, owner)
    rec(tree, None)
    return out


def _inline_properties(tree, modname, classes, known):
    n = 0
    for cname, members in classes.items():
        if cname == "__bases__":
            continue
        props = {}
        for name, (q, f) in members.items():
            if q in known or "property" not in _decorators(f):
                continue
            body = _body_no_doc(f)
            if len(body) == 1 and isinstance(body[0], ast.Return) and \
                    body[0].value is not None:
                props[name] = body[0].value
        if not props:
            continue
        cls = next(c for c in tree.body if isinstance(c, ast.ClassDef)
                   and c.name == cname)

        class T(ast.NodeTransformer):
            def visit_Attribute(self, node):
                nonlocal n
                self.generic_visit(node)
                if isinstance(node.ctx, ast.Load) and node.attr in props \
                        and isinstance(node.value, ast.Name) \
                        and node.value.id == "self":
                    n += 1
                    return ast.copy_location(_clone(props[node.attr]), node)
                return node
        t = T()
        for m in cls.body:
            if isinstance(m, FUNC) and m.name not in props:
                m.body = [t.visit(s) for s in m.body]
        # through another object (`self.packet.frame_size`): only where the
        # name can mean nothing else in this module - defined once, as this
        # property, never assigned - and the receiver is a plain chain
        for pname, pbody in props.items():
            defs = sum(1 for x in ast.walk(tree) if (
                isinstance(x, FUNC + (ast.ClassDef,)) and x.name == pname)
                or (isinstance(x, ast.Attribute) and x.attr == pname
                    and isinstance(x.ctx, (ast.Store, ast.Del)))
                or (isinstance(x, ast.Name) and x.id == pname and isinstance(
                    x.ctx, ast.Store)))
            if defs != 1:
                continue

            class U(ast.NodeTransformer):
                def visit_Attribute(self, node):
                    nonlocal n
                    self.generic_visit(node)
                    if not (isinstance(node.ctx, ast.Load)
                            and node.attr == pname):
                        return node
                    recv = node.value
                    chain = recv
                    while isinstance(chain, ast.Attribute):
                        chain = chain.value
                    if not isinstance(chain, ast.Name) or (
                            isinstance(recv, ast.Name)
                            and recv.id == "self"):
                        return node
                    n += 1
                    return ast.copy_location(_ParamSubst(
                        {"self": recv}).visit(_clone(pbody)), node)
            u = U()
            for c in tree.body:
                if isinstance(c, ast.ClassDef):
                    for m in c.body:
                        if isinstance(m, FUNC) and not (
                                c is cls and m.name == pname):
                            m.body = [u.visit(s_) for s_ in m.body]
                elif isinstance(c, FUNC):
                    c.body = [u.visit(s_) for s_ in c.body]
    return n


def _inline_in_function(func, owner, classes, modfuncs, known, qual=None):
    n = 0
    # local closures the reference does not know (`def send(frame): return
    # self.ec.roundtrip_packet(frame, ...)` introduced to de-duplicate):
    # defined once, at the top level of this function, only ever called
    local = {}
    if qual is not None:
        for _, st in _own_defs(func):
            if isinstance(st, FUNC) and f"{qual}.{st.name}" not in known \
                    and not st.decorator_list:
                uses = [x for x in ast.walk(func) if isinstance(x, ast.Name)
                        and x.id == st.name]
                callee = [c for c in ast.walk(func) if isinstance(
                    c, ast.Call) and isinstance(c.func, ast.Name)
                    and c.func.id == st.name]
                inside = {id(x) for x in ast.walk(st)}
                if uses and len(uses) == len(callee) and not any(
                        id(u) in inside for u in uses) and not any(
                            isinstance(x, (ast.Nonlocal, ast.Global))
                            for x in ast.walk(st)):
                    local[st.name] = st

    def helper_of(call):
        if not isinstance(call, ast.Call):
            return None
        if isinstance(call.func, ast.Name) and call.func.id in local:
            return local[call.func.id], False
        r = _resolve(call, owner, classes, modfuncs, known)
        if r is None or r[0] is func:
            return None
        return r

    def strip_await(e):
        return (e.value, True) if isinstance(e, ast.Await) else (e, False)

    def do_block(stmts):
        nonlocal n
        out = []
        for st in stmts:
            # recurse into compound statements first
            for fld in ("body", "orelse", "finalbody"):
                sub = getattr(st, fld, None)
                if isinstance(sub, list) and sub and isinstance(
                        sub[0], ast.stmt) and not isinstance(
                            st, FUNC + (ast.ClassDef,)):
                    setattr(st, fld, do_block(sub))
            if isinstance(st, ast.Try):
                for h in st.handlers:
                    h.body = do_block(h.body)
            rep = stmt_inline(st)
            if rep is None:
                rep = hoist_inline(st)
            if rep is None:
                rep = lead_hoist(st)
            if rep is None:
                out.append(st)
            else:
                n += 1
                out.extend(rep)
        return out

    lead_no = [0]

    def lead_hoist(st):
        """`yield self.h(a), Else` / `x = (self.h(a), b)`: the helper call
        is what the statement evaluates first, so it can be given a name of
        its own in front of the statement (and inlined there)"""
        if not isinstance(st, (ast.Expr, ast.Assign, ast.Return)) or \
                getattr(st, "value", None) is None:
            return None
        holder, fld, v = st, "value", st.value
        if isinstance(v, (ast.Yield, ast.Await)) and v.value is not None \
                and isinstance(st, ast.Expr) and isinstance(v, ast.Yield):
            holder, fld, v = v, "value", v.value
        if not (isinstance(v, ast.Tuple) and v.elts):
            return None
        c = v.elts[0]
        r = helper_of(c)
        if r is None or isinstance(r[0], ast.AsyncFunctionDef) or \
                _is_generator(r[0]):
            return None
        lead_no[0] += 1
        nm = f"_lead{lead_no[0]}"
        a = ast.Assign(targets=[ast.Name(nm, ast.Store())], value=c)
        ast.copy_location(a, st)
        ast.fix_missing_locations(a)
        rep = stmt_inline(a)
        if rep is None:
            lead_no[0] -= 1
            return None
        v.elts[0] = ast.copy_location(ast.Name(nm, ast.Load()), c)
        return rep + [st]

    def hoist_inline(st):
        """`for x in self.h(a):` / `y = f(self.h(a))` where h is a few
        plain assignments followed by `return <expr>`: the assignments are
        placed in front of the statement, the call becomes the expression"""
        if isinstance(st, (ast.For, ast.AsyncFor)):
            heads = [("iter", st.iter)]
        elif isinstance(st, ast.If):
            heads = [("test", st.test)]
        elif isinstance(st, (ast.Assign, ast.AugAssign, ast.AnnAssign,
                             ast.Return, ast.Expr)):
            heads = [("value", st.value)] if getattr(
                st, "value", None) is not None else []
        else:
            return None
        for fld, head in heads:
            for c in ast.walk(head):
                r = helper_of(c)
                if r is None:
                    continue
                h, is_m = r
                if isinstance(h, ast.AsyncFunctionDef) or _is_generator(h):
                    continue
                body = _body_no_doc(h)
                if len(body) < 2 or not isinstance(body[-1], ast.Return) \
                        or body[-1].value is None or not all(
                            isinstance(b, ast.Assign) and len(b.targets) == 1
                            and isinstance(b.targets[0], ast.Name)
                            for b in body[:-1]):
                    continue
                pb = _prepare_body(h, c, is_m)
                if pb is None:
                    continue
                pro, nb = pb
                # the helper's locals must not collide with the caller's
                mine = {x.id for x in ast.walk(func) if isinstance(
                    x, ast.Name)} | {a.arg for a in ast.walk(func)
                                     if isinstance(a, ast.arg)}
                theirs = {b.targets[0].id for b in nb[:-1]} | {
                    p.targets[0].id for p in pro}
                if mine & theirs:
                    continue
                ret = nb[-1].value

                class R(ast.NodeTransformer):
                    def visit_Call(self, node):
                        if node is c:
                            return ast.copy_location(ret, node)
                        self.generic_visit(node)
                        return node
                setattr(st, fld, R().visit(head))
                ast.fix_missing_locations(st)
                return pro + nb[:-1] + [st]
        return None

    def bool_loop(st):
        """`while [not] self.h(a): B` where h decides with `return True`
        / `return False` (a try around one call, say): the loop becomes
        `while True:` around h's body, each return replaced by what it
        leads to - B and the next round, or leaving the loop"""
        if not isinstance(st, ast.While) or st.orelse:
            return None
        test, neg = st.test, False
        if isinstance(test, ast.UnaryOp) and isinstance(test.op, ast.Not):
            test, neg = test.operand, True
        r = helper_of(test)
        if r is None:
            return None
        h, is_m = r
        if isinstance(h, ast.AsyncFunctionDef) or _is_generator(h):
            return None
        pb = _prepare_body(h, test, is_m)
        if pb is None:
            return None
        pro, body = pb
        mine = {x.id for x in ast.walk(func) if isinstance(x, ast.Name)} | {
            a.arg for a in ast.walk(func) if isinstance(a, ast.arg)}
        theirs = {x.id for b in pro + body for x in ast.walk(b)
                  if isinstance(x, ast.Name) and isinstance(x.ctx, ast.Store)}
        if mine & theirs:
            return None

        def place(stmts, guarded):
            out = []
            for s_ in stmts:
                if isinstance(s_, ast.Return):
                    if guarded or not isinstance(
                            s_.value, ast.Constant) or not isinstance(
                                s_.value.value, bool):
                        return None
                    if s_.value.value != neg:
                        out.extend(_clone(b) for b in st.body)
                        out.append(ast.copy_location(ast.Continue(), s_))
                    else:
                        out.append(ast.copy_location(ast.Break(), s_))
                    return out
                if not any(isinstance(x, ast.Return) for x in ast.walk(s_)):
                    out.append(s_)
                    continue
                if isinstance(s_, ast.If):
                    a, b = place(s_.body, guarded), place(s_.orelse, guarded)
                    if a is None or b is None:
                        return None
                    s_.body, s_.orelse = a or [ast.Pass()], b
                    out.append(s_)
                elif isinstance(s_, ast.Try) and not s_.finalbody:
                    a = place(s_.body, True)
                    o = place(s_.orelse, guarded)
                    if a is None or o is None:
                        return None
                    s_.body, s_.orelse = a, o
                    for hd in s_.handlers:
                        hb = place(hd.body, guarded)
                        if hb is None:
                            return None
                        hd.body = hb
                    out.append(s_)
                else:
                    return None
            return out
        if not _ends(body):
            return None
        nb = place(body, False)
        if nb is None:
            return None
        loop = ast.While(test=ast.Constant(value=True), body=pro + nb,
                         orelse=[])
        ast.copy_location(loop, st)
        ast.fix_missing_locations(loop)
        return [loop]

    def bool_if(st):
        """`if [not] self.h(a): A else: B` with h deciding by `return
        True` / `return False`: h's body, every return replaced by the
        branch it selects"""
        if not isinstance(st, ast.If):
            return None
        test, neg = st.test, False
        if isinstance(test, ast.UnaryOp) and isinstance(test.op, ast.Not):
            test, neg = test.operand, True
        r = helper_of(test)
        if r is None:
            return None
        h, is_m = r
        if isinstance(h, ast.AsyncFunctionDef) or _is_generator(h):
            return None
        pb = _prepare_body(h, test, is_m)
        if pb is None:
            return None
        pro, body = pb
        if not _ends(body) and not any(isinstance(b, ast.Try)
                                       for b in body):
            return None
        rets = [x for b in body for x in ast.walk(b)
                if isinstance(x, ast.Return)]
        if not rets or not all(isinstance(x.value, ast.Constant)
                               and isinstance(x.value.value, bool)
                               for x in rets):
            return None
        mine = {x.id for x in ast.walk(func) if isinstance(x, ast.Name)} | {
            a.arg for a in ast.walk(func) if isinstance(a, ast.arg)}
        theirs = {x.id for b in pro + body for x in ast.walk(b)
                  if isinstance(x, ast.Name) and isinstance(x.ctx, ast.Store)}
        if mine & theirs:
            return None
        marker = ast.Name("__selected", ast.Store())
        se = _single_exit(body, marker)
        if se is None:
            return None

        def fill(stmts):
            out = []
            for s_ in stmts:
                if isinstance(s_, ast.Assign) and s_.targets[0] is not None \
                        and isinstance(s_.targets[0], ast.Name) and \
                        s_.targets[0].id == "__selected":
                    br = st.body if s_.value.value != neg else st.orelse
                    out.extend(_clone(b) for b in br)
                    continue
                for fld in ("body", "orelse", "finalbody"):
                    sub = getattr(s_, fld, None)
                    if isinstance(sub, list) and sub and isinstance(
                            sub[0], ast.stmt):
                        setattr(s_, fld, fill(sub) or (
                            [ast.Pass()] if fld == "body" else []))
                if isinstance(s_, ast.Try):
                    for hd in s_.handlers:
                        hd.body = fill(hd.body) or [ast.Pass()]
                out.append(s_)
            return out
        res = pro + fill(se)
        for s_ in res:
            ast.copy_location(s_, st)
            ast.fix_missing_locations(s_)
        return res or [ast.copy_location(ast.Pass(), st)]

    def with_helper(st):
        """`with self.h(a) as T: BODY` where h is a @contextmanager
        generator with exactly one `yield V` statement: h's body with the
        yield replaced by `T = V; BODY`"""
        if not isinstance(st, (ast.With, ast.AsyncWith)) or len(
                st.items) != 1:
            return None
        it = st.items[0]
        r = helper_of(it.context_expr)
        if r is None:
            return None
        h, is_m = r
        want = "asynccontextmanager" if isinstance(st, ast.AsyncWith) \
            else "contextmanager"
        if want not in _decorators(h) or isinstance(
                h, ast.AsyncFunctionDef) != isinstance(st, ast.AsyncWith):
            return None
        ys = [x for x in _walk_own(h) if isinstance(
            x, (ast.Yield, ast.YieldFrom))]
        if len(ys) != 1 or isinstance(ys[0], ast.YieldFrom) or _returns(h):
            return None
        pb = _prepare_body(h, it.context_expr, is_m)
        if pb is None:
            return None
        pro, body = pb
        mine = {x.id for x in ast.walk(func) if isinstance(x, ast.Name)} | {
            a.arg for a in ast.walk(func) if isinstance(a, ast.arg)}
        incomp = {id(y) for b in pro + body for c in ast.walk(b)
                  if isinstance(c, (ast.ListComp, ast.SetComp, ast.DictComp,
                                    ast.GeneratorExp)) for y in ast.walk(c)}
        theirs = {x.id for b in pro + body for x in ast.walk(b)
                  if isinstance(x, ast.Name) and isinstance(x.ctx, ast.Store)
                  and id(x) not in incomp}
        tnames = {x.id for x in ast.walk(it.optional_vars)
                  if isinstance(x, ast.Name)} if it.optional_vars else set()
        if (mine - tnames) & theirs:
            return None
        done = [False]

        def repl(stmts, in_loop):
            res = []
            for s_ in stmts:
                if isinstance(s_, ast.Expr) and isinstance(
                        s_.value, ast.Yield):
                    if in_loop:
                        return None
                    if it.optional_vars is not None:
                        res.append(ast.copy_location(ast.Assign(
                            targets=[_clone(it.optional_vars)],
                            value=s_.value.value or ast.Constant(None)),
                            s_))
                    res.extend(st.body)
                    done[0] = True
                    continue
                if any(isinstance(x, ast.Yield) for x in ast.walk(s_)):
                    if isinstance(s_, FUNC + (ast.ClassDef,)):
                        return None
                    loop = isinstance(s_, (ast.For, ast.While, ast.AsyncFor))
                    for fld in ("body", "orelse", "finalbody"):
                        sub = getattr(s_, fld, None)
                        if isinstance(sub, list) and sub and isinstance(
                                sub[0], ast.stmt):
                            r2 = repl(sub, in_loop or loop)
                            if r2 is None:
                                return None
                            setattr(s_, fld, r2)
                    if isinstance(s_, ast.Try):
                        for hd in s_.handlers:
                            r2 = repl(hd.body, in_loop)
                            if r2 is None:
                                return None
                            hd.body = r2
                res.append(s_)
            return res
        new = repl(body, False)
        if new is None or not done[0] or any(
                isinstance(x, ast.Yield) and x is not None and not any(
                    x is y for b in st.body for y in ast.walk(b))
                for b in new for x in ast.walk(b)):
            return None
        out = pro + new
        for s_ in out:
            ast.fix_missing_locations(s_)
        return out

    def stmt_inline(st):
        rep = bool_loop(st)
        if rep is not None:
            return rep
        rep = bool_if(st)
        if rep is not None:
            return rep
        rep = with_helper(st)
        if rep is not None:
            return rep
        # for T in helper(args): BODY   (generator helper)
        if isinstance(st, (ast.For,)) and not st.orelse:
            r = helper_of(st.iter)
            if r is not None and _is_generator(r[0]) and not any(
                    isinstance(x, ast.YieldFrom) for x in _walk_own(r[0])) \
                    and "contextmanager" not in _decorators(r[0]) \
                    and not _returns(r[0]):
                pb = _prepare_body(r[0], st.iter, r[1])
                if pb is not None:
                    pro, body = pb
                    ok = [True]

                    def repl(stmts):
                        res = []
                        for s in stmts:
                            if isinstance(s, ast.Expr) and isinstance(
                                    s.value, ast.Yield):
                                val = s.value.value or ast.Constant(None)
                                res.append(ast.copy_location(ast.Assign(
                                    targets=[_clone(st.target)],
                                    value=val), s))
                                res.extend(_clone(b) for b in st.body)
                                continue
                            for x in ast.walk(s):
                                if isinstance(x, ast.Yield) and not (
                                        isinstance(s, ast.Expr)
                                        and s.value is x):
                                    pass
                            for fld in ("body", "orelse", "finalbody"):
                                sub = getattr(s, fld, None)
                                if isinstance(sub, list) and sub and \
                                        isinstance(sub[0], ast.stmt):
                                    setattr(s, fld, repl(sub))
                            if isinstance(s, ast.Try):
                                for h in s.handlers:
                                    h.body = repl(h.body)
                            res.append(s)
                        return res
                    new = repl(body)
                    # any yield left in expression position?
                    if any(isinstance(x, ast.Yield) for s in new
                           for x in ast.walk(s)):
                        return None
                    for s in new:
                        ast.fix_missing_locations(s)
                    return pro + new
            return None
        # T.extend(helper(args)) with a helper that builds and returns a list
        if isinstance(st, ast.Expr) and isinstance(st.value, ast.Call) \
                and isinstance(st.value.func, ast.Attribute) \
                and st.value.func.attr == "extend" \
                and len(st.value.args) == 1 and not st.value.keywords:
            r = helper_of(st.value.args[0])
            if r is not None and not _is_generator(r[0]) and not isinstance(
                    r[0], ast.AsyncFunctionDef):
                pb = _prepare_body(r[0], st.value.args[0], r[1])
                if pb is not None:
                    pro, body = pb
                    if len(body) >= 2 and isinstance(body[0], ast.Assign) \
                            and len(body[0].targets) == 1 and isinstance(
                                body[0].targets[0], ast.Name) and isinstance(
                                    body[0].value, ast.List) and not \
                            body[0].value.elts and isinstance(
                                body[-1], ast.Return) and isinstance(
                                    body[-1].value, ast.Name) and \
                            body[-1].value.id == body[0].targets[0].id:
                        acc = body[0].targets[0].id
                        uses = [x for b in body[1:-1] for x in ast.walk(b)
                                if isinstance(x, ast.Name) and x.id == acc]
                        calls = [x for b in body[1:-1] for x in ast.walk(b)
                                 if isinstance(x, ast.Call) and isinstance(
                                     x.func, ast.Attribute) and x.func.attr
                                 in ("append", "extend") and isinstance(
                                     x.func.value, ast.Name)
                                 and x.func.value.id == acc]
                        rets = [x for b in body[1:-1] for x in ast.walk(b)
                                if isinstance(x, ast.Return)]
                        if len(uses) == len(calls) and not rets:
                            t = _ParamSubst({acc: st.value.func.value})
                            new = [t.visit(b) for b in body[1:-1]]
                            for b in new:
                                ast.fix_missing_locations(b)
                            return pro + new
        value = None
        kind = None
        if isinstance(st, ast.Expr):
            value, kind = st.value, "expr"
        elif isinstance(st, ast.Return) and st.value is not None:
            value, kind = st.value, "return"
        elif isinstance(st, ast.Assign) and len(st.targets) == 1:
            value, kind = st.value, "assign"
        if value is None:
            return None
        call, awaited = strip_await(value)
        r = helper_of(call)
        if r is None:
            return None
        h, is_m = r
        if kind == "return" and not awaited and _is_generator(h) and \
                not _is_generator(func) and len(_body_no_doc(func)) == 1 \
                and isinstance(h, ast.FunctionDef) == isinstance(
                    func, ast.FunctionDef):
            # `def f(..): return self._h(..)` with a generator-based helper
            # (a @contextmanager): f becomes that generator itself
            pb = _prepare_body(h, call, is_m)
            if pb is not None:
                have = _decorators(func)
                for d in h.decorator_list:
                    nm = ast.unparse(d).split("(")[0].split(".")[-1]
                    if nm not in have and nm not in ("staticmethod",
                                                     "classmethod"):
                        func.decorator_list.append(_clone(d))
                return pb[0] + pb[1]
        if _is_generator(h) or "contextmanager" in _decorators(h) or \
                "asynccontextmanager" in _decorators(h):
            return None
        if isinstance(h, ast.AsyncFunctionDef) != awaited:
            # a sync helper that returns an awaitable is handled as an
            # expression below
            return None
        pb = _prepare_body(h, call, is_m)
        if pb is None:
            return None
        pro, body = pb
        rets = [x for s in body for x in ast.walk(s)
                if isinstance(x, ast.Return)]
        # returns inside nested defs do not count
        rets = [x for x in rets if _owned(body, x)]
        last_is_ret = bool(body) and isinstance(body[-1], ast.Return)
        if kind == "return":
            if not last_is_ret:
                body = body + [ast.copy_location(ast.Return(value=None), st)]
            return pro + body
        if len(rets) > (1 if last_is_ret else 0):
            # early returns: bring the body into single-exit form
            if kind != "assign":
                return None
            body0 = body
            if not _ends(body):
                # falling off the end returns None (canon_flow drops a
                # trailing bare `return None`)
                body = body + [ast.Return(value=ast.Constant(value=None))]
            conv = _single_exit(body, st.targets[0])
            if conv is None:
                conv = _loop_exit(body0, st.targets[0])
            if conv is None:
                return None
            for b_ in conv:
                ast.copy_location(b_, st)
                ast.fix_missing_locations(b_)
            return pro + conv
        if kind == "expr":
            if last_is_ret:
                rv = body[-1].value
                body = body[:-1] + ([ast.copy_location(ast.Expr(rv), st)]
                                    if rv is not None and not isinstance(
                                        rv, (ast.Constant, ast.Name))
                                    else [])
            return pro + body or [ast.copy_location(ast.Pass(), st)]
        if kind == "assign":
            if not last_is_ret or body[-1].value is None:
                return None
            rv = body[-1].value
            tgt = st.targets[0]
            if isinstance(rv, ast.Name) and isinstance(
                    tgt, (ast.Attribute, ast.Name)):
                # `r = E; r.a = ...; return r` assigned to X: the object is
                # built directly in X
                defs = [i for i, b in enumerate(body[:-1])
                        if isinstance(b, ast.Assign) and len(b.targets) == 1
                        and isinstance(b.targets[0], ast.Name)
                        and b.targets[0].id == rv.id]
                others = [x for b in body[:-1] for x in ast.walk(b)
                          if isinstance(x, ast.Name) and x.id == rv.id
                          and isinstance(x.ctx, (ast.Store, ast.Del))]
                # (an attribute target is written early and read back that
                # way: only where the local is nothing but the object under
                # construction - every later use is `r.<attr>`)
                bare = False
                if isinstance(tgt, ast.Attribute) and len(defs) == 1:
                    based = {id(x.value) for b in body[defs[0] + 1:-1]
                             for x in ast.walk(b)
                             if isinstance(x, ast.Attribute)}
                    bare = any(isinstance(x, ast.Name) and x.id == rv.id
                               and id(x) not in based
                               for b in body[defs[0] + 1:-1]
                               for x in ast.walk(b))
                if len(defs) == 1 and len(others) == 1 and not bare:
                    i = defs[0]
                    body[i] = ast.copy_location(ast.Assign(
                        targets=[_clone(tgt)], value=body[i].value), body[i])
                    load = _clone(tgt)
                    for x in ast.walk(load):
                        if hasattr(x, "ctx"):
                            x.ctx = ast.Load()
                    t = _ParamSubst({rv.id: load})
                    body = body[:i + 1] + [t.visit(b)
                                           for b in body[i + 1:-1]]
                    for b in body:
                        ast.fix_missing_locations(b)
                    return pro + body
            body = body[:-1] + [ast.copy_location(ast.Assign(
                targets=st.targets, value=body[-1].value), st)]
            return pro + body
        return None

    def _owned(body, node):
        for s in body:
            stack = [s]
            while stack:
                x = stack.pop()
                if x is node:
                    return True
                for c in ast.iter_child_nodes(x):
                    if isinstance(c, FUNC + (ast.Lambda, ast.ClassDef)):
                        continue
                    stack.append(c)
        return False

    func.body = do_block(func.body)

    # expression level: single-`return <expr>` helpers anywhere
    class E(ast.NodeTransformer):
        def visit_Call(self, node):
            nonlocal n
            self.generic_visit(node)
            r = helper_of(node)
            if r is None:
                return node
            h, is_m = r
            if isinstance(h, ast.AsyncFunctionDef) or _is_generator(h):
                return node
            body = _body_no_doc(h)
            if len(body) != 1 or not isinstance(body[0], ast.Return) or \
                    body[0].value is None:
                return node
            m = _bind_args(h, node, is_m)
            if m is None:
                return node
            n += 1
            new = _ParamSubst(m).visit(_clone(body[0].value))
            return ast.copy_location(new, node)

        def visit_FunctionDef(self, node):
            return node
        visit_AsyncFunctionDef = visit_Lambda = visit_ClassDef = \
            visit_FunctionDef
    e = E()
    func.body = [e.visit(s) for s in func.body]
    for s in func.body:
        ast.fix_missing_locations(s)
    return n


# ------------------------------------------------------------ unrolling
def unroll_literal_loops(func, known_locals, class_consts=None):
    """`for a, b in ((x1, y1), (x2, y2)): BODY` with loop variables the
    reference does not know and no break/continue in BODY: the iterations
    are written out (a duplicated block that was folded into a loop).
    `class_consts`: literal tuples bound at class level (name -> node), for
    loops over `self.NAME` / `cls.NAME`"""
    n = 0
    class_consts = class_consts or {}

    def visit(lst):
        nonlocal n
        i = 0
        while i < len(lst):
            st = lst[i]
            for fld in ("body", "orelse", "finalbody"):
                sub = getattr(st, fld, None)
                if isinstance(sub, list) and sub and isinstance(
                        sub[0], ast.stmt) and not isinstance(
                            st, FUNC + (ast.ClassDef,)):
                    visit(sub)
            if isinstance(st, ast.Try):
                for h in st.handlers:
                    visit(h.body)
            rep = unroll(st)
            if rep is not None:
                lst[i:i + 1] = rep
                n += 1
                i += len(rep)
            else:
                i += 1

    def unroll(st):
        if isinstance(st, ast.For) and isinstance(
                st.iter, ast.Constant) and isinstance(
                    st.iter.value, str) and 1 <= len(st.iter.value) <= 8:
            # a loop over the characters of a literal
            st = ast.copy_location(ast.For(
                target=st.target, iter=ast.Tuple(
                    elts=[ast.Constant(value=c) for c in st.iter.value],
                    ctx=ast.Load()), body=st.body, orelse=st.orelse), st)
            ast.fix_missing_locations(st)
        if isinstance(st, ast.For):
            # (a, b) + (c, d): one literal
            def flat(e):
                if isinstance(e, (ast.Tuple, ast.List)):
                    return list(e.elts)
                if isinstance(e, ast.BinOp) and isinstance(e.op, ast.Add):
                    a, b = flat(e.left), flat(e.right)
                    if a is not None and b is not None:
                        return a + b
                return None
            if isinstance(st.iter, ast.BinOp):
                el = flat(st.iter)
                if el is not None:
                    st = ast.copy_location(ast.For(
                        target=st.target, iter=ast.Tuple(
                            elts=el, ctx=ast.Load()), body=st.body,
                        orelse=st.orelse), st)
                    ast.fix_missing_locations(st)
        if isinstance(st, ast.For) and isinstance(
                st.iter, ast.Attribute) and isinstance(
                    st.iter.value, ast.Name) and st.iter.value.id in (
                        "self", "cls") and st.iter.attr in class_consts:
            st = ast.copy_location(ast.For(
                target=st.target, iter=_clone(class_consts[st.iter.attr]),
                body=st.body, orelse=st.orelse), st)
            ast.fix_missing_locations(st)
        if not isinstance(st, ast.For) or st.orelse or not isinstance(
                st.iter, (ast.Tuple, ast.List)) or not (
                    1 <= len(st.iter.elts) <= 4 or (
                        len(st.body) <= 2 and len(st.iter.elts) <= 16)):
            return None
        tnames = [x.id for x in ast.walk(st.target)
                  if isinstance(x, ast.Name)]
        if not tnames or any(t in known_locals for t in tnames):
            return None
        for x in st.body:
            for y in ast.walk(x):
                if isinstance(y, (ast.Break, ast.Continue)):
                    return None
                if isinstance(y, ast.Name) and y.id in tnames and \
                        isinstance(y.ctx, (ast.Store, ast.Del)):
                    return None
        out = []
        for e in st.iter.elts:
            if isinstance(st.target, ast.Name):
                m = {st.target.id: e}
            elif isinstance(st.target, ast.Tuple) and isinstance(
                    e, (ast.Tuple, ast.List)) and len(e.elts) == len(
                        st.target.elts) and all(isinstance(
                            t, ast.Name) for t in st.target.elts):
                m = {t.id: v for t, v in zip(st.target.elts, e.elts)}
            else:
                return None
            t = _ParamSubst(m)
            out.extend(t.visit(_clone(b)) for b in st.body)
        for b in out:
            ast.fix_missing_locations(b)
        return out
    visit(func.body)
    if n:
        from .normalize import fold_constants
        fold_constants(func)
        # `name = "pB"; setattr(self, name, ...)`: literal temporaries
        inline_temporaries(func, known_locals)
        literal_attr_calls(func)
    return n


def literal_attr_calls(tree):
    """`getattr(x, 'name')` is `x.name`, `setattr(x, 'name', v)` is
    `x.name = v` (plain identifiers; private names, which the class body
    mangles, excepted)"""
    def plain(a):
        return isinstance(a, ast.Constant) and isinstance(a.value, str) \
            and a.value.isidentifier() and not (
                a.value.startswith("__") and not a.value.endswith("__"))

    class T(ast.NodeTransformer):
        def visit_Expr(self, node):
            self.generic_visit(node)
            c = node.value
            if isinstance(c, ast.Call) and isinstance(c.func, ast.Name) \
                    and c.func.id == "setattr" and len(c.args) == 3 \
                    and not c.keywords and plain(c.args[1]):
                t = ast.Attribute(value=c.args[0], attr=c.args[1].value,
                                  ctx=ast.Store())
                new = ast.Assign(targets=[t], value=c.args[2])
                ast.copy_location(new, node)
                ast.fix_missing_locations(new)
                return new
            return node

        def visit_Call(self, node):
            self.generic_visit(node)
            if isinstance(node.func, ast.Name) and node.func.id == "getattr" \
                    and len(node.args) == 2 and not node.keywords \
                    and plain(node.args[1]):
                new = ast.Attribute(value=node.args[0],
                                    attr=node.args[1].value, ctx=ast.Load())
                ast.copy_location(new, node)
                ast.fix_missing_locations(new)
                return new
            return node
    T().visit(tree)


# ------------------------------------------------------------- temporaries
def inline_temporaries(func, known_locals):
    """substitute single-assignment locals the reference does not know"""
    from .normalize import local_order, _params
    n = 0
    for _ in range(40):
        cur = [x for x in local_order(func) if x not in known_locals
               and x not in _params(func)]
        if not cur:
            break
        progress = False
        for name in cur:
            stores = []
            loads = []
            nested = False
            for x in ast.walk(func):
                if isinstance(x, FUNC + (ast.Lambda,)) and x is not func:
                    for y in ast.walk(x):
                        if isinstance(y, ast.Name) and y.id == name:
                            nested = True
                if isinstance(x, ast.Name) and x.id == name:
                    (stores if isinstance(x.ctx, (ast.Store, ast.Del))
                     else loads).append(x)
                if isinstance(x, ast.ExceptHandler) and x.name == name:
                    stores.append(x)
            if nested or len(stores) != 1 or not loads:
                continue
            holder, idx, st = _find_assign(func, name)
            if st is None:
                continue
            v = st.value
            if any(isinstance(y, (ast.Await, ast.Yield, ast.YieldFrom,
                                  ast.NamedExpr)) for y in ast.walk(v)):
                continue
            has_call = any(isinstance(y, ast.Call) for y in ast.walk(v))
            if has_call and len(loads) > 1:
                continue
            # a freshly built object has an identity: it is not duplicated,
            # and it is not substituted where it would be mutated
            fresh = any(isinstance(y, (ast.List, ast.Dict, ast.Set,
                                       ast.ListComp, ast.DictComp,
                                       ast.SetComp, ast.GeneratorExp))
                        for y in ast.walk(v)) or has_call
            if fresh:
                if len(loads) > 1:
                    continue
                mutated = False
                for x in ast.walk(func):
                    if isinstance(x, (ast.Subscript, ast.Attribute)) and \
                            isinstance(x.ctx, (ast.Store, ast.Del)) and \
                            x.value is loads[0]:
                        mutated = True
                if mutated:
                    continue
            # all uses after the assignment, in the same or a nested block
            if any((l.lineno, l.col_offset) < (st.lineno, st.col_offset)
                   for l in loads if hasattr(l, "lineno")):
                continue
            # the names the value reads must not be re-bound in between:
            # only checked for plain names assigned later in the function
            reads = {y.id for y in ast.walk(v) if isinstance(y, ast.Name)}
            rebound = False
            # `t = value.value; value = t`: the statement that uses the
            # temporary may itself re-bind what the value reads (its right
            # side is evaluated first)
            own_targets = set()
            for a_ in ast.walk(func):
                if isinstance(a_, ast.Assign) and any(
                        y is l for l in loads for y in ast.walk(a_.value)):
                    if all(any(y is l for y in ast.walk(a_.value))
                           for l in loads):
                        for t_ in a_.targets:
                            for y in ast.walk(t_):
                                own_targets.add(id(y))
            for x in ast.walk(func):
                if id(x) in own_targets:
                    continue
                if isinstance(x, ast.Name) and isinstance(
                        x.ctx, ast.Store) and x.id in reads and hasattr(
                            x, "lineno") and x.lineno > st.lineno and any(
                                hasattr(l, "lineno") and l.lineno >= x.lineno
                                for l in loads):
                    rebound = True
            if rebound:
                continue
            # the value must mean the same where it is used: anything but
            # plain locals and constants may only move over statements that
            # neither call, await nor store into objects
            fragile = any(isinstance(y, (ast.Subscript, ast.Call,
                                         ast.Starred))
                          for y in ast.walk(v))
            # attribute chains rooted in a module-level name (an enum
            # member, a class constant: ECCmd.NOP.value) mean the same
            # everywhere; those rooted in self or a local do not
            local_names = set(local_order(func)) | set(_params(func))
            for y in ast.walk(v):
                if isinstance(y, ast.Attribute):
                    root = y
                    while isinstance(root, ast.Attribute):
                        root = root.value
                    if not (isinstance(root, ast.Name)
                            and root.id not in local_names):
                        fragile = True
            if fragile and isinstance(v, ast.Attribute):
                # a plain alias `x = self.a.b`: safe wherever neither the
                # chain nor a prefix of it is assigned in this function
                chain = v
                pure = True
                while isinstance(chain, ast.Attribute):
                    chain = chain.value
                if not isinstance(chain, ast.Name):
                    pure = False
                if pure:
                    txt = ast.unparse(v)
                    prefixes = set()
                    c2 = v
                    while isinstance(c2, ast.Attribute):
                        prefixes.add(ast.unparse(c2))
                        c2 = c2.value
                    prefixes.add(ast.unparse(c2))
                    clash = False
                    for x in ast.walk(func):
                        if isinstance(x, (ast.Attribute, ast.Name)) and \
                                isinstance(x.ctx, (ast.Store, ast.Del)) and \
                                ast.unparse(x) in prefixes:
                            clash = True
                    # ... nor may the object be handed to code that can
                    # change it (a method called on it, or it being passed
                    # as an argument), except through `self` whose methods
                    # the other rules look at one by one
                    root = chain.id
                    for x in ast.walk(func):
                        if isinstance(x, ast.Call):
                            r_ = x.func
                            while isinstance(r_, (ast.Attribute,
                                                  ast.Subscript)):
                                r_ = r_.value
                            if isinstance(x.func, ast.Attribute) and \
                                    isinstance(r_, ast.Name) and \
                                    r_.id == root:
                                clash = True
                            if any(isinstance(a_, ast.Name) and a_.id == root
                                   for a_ in x.args):
                                clash = True
                    if not clash:
                        fragile = False
            if fragile:
                last = None
                for j in range(idx + 1, len(holder)):
                    if any(y is l for l in loads
                           for y in ast.walk(holder[j])):
                        last = j
                if last is None:
                    continue
                crossing = holder[idx + 1:last]
                # statements of the using statement that run before the use
                # are not looked into: it has to be a simple statement
                if not isinstance(holder[last], (ast.Assign, ast.AugAssign,
                                                 ast.Expr, ast.Return,
                                                 ast.AnnAssign, ast.If,
                                                 ast.While, ast.For,
                                                 ast.With, ast.Assert,
                                                 ast.Raise)):
                    continue
                inside = []     # what runs before a use inside the last
                if isinstance(holder[last], (ast.If, ast.While, ast.For,
                                             ast.With)):
                    hd = {ast.If: "test", ast.While: "test", ast.For: "iter",
                          ast.With: "items"}[type(holder[last])]
                    head = getattr(holder[last], hd)
                    heads = head if isinstance(head, list) else [head]
                    if not all(any(y is l for h in heads
                                   for y in ast.walk(h)) for l in loads):
                        # uses in the body of an `if` / `with` (no way
                        # back up): what stands before the last use is
                        # crossed as well
                        if has_call or isinstance(holder[last], (
                                ast.While, ast.For)) or any(
                                isinstance(y, (ast.While, ast.For,
                                               ast.AsyncFor) + FUNC)
                                for y in ast.walk(holder[last])):
                            continue
                        pos = max((l.lineno, l.col_offset) for l in loads
                                  if hasattr(l, "lineno"))
                        inside = [y for y in ast.walk(holder[last])
                                  if hasattr(y, "lineno") and (
                                      y.lineno, y.col_offset) < pos
                                  and not any(y is l for l in loads)]
                moved = False
                # an attribute read is invalidated by a store to an
                # attribute of the same name; an item read by any item
                # store
                v_attrs = {y.attr for y in ast.walk(v)
                           if isinstance(y, ast.Attribute)}
                # ... and by a method call on the object it is read from
                # (`start = packet.size; packet.append(...); use(start)`)
                v_roots = set()
                for y in ast.walk(v):
                    if isinstance(y, ast.Attribute):
                        r_ = y
                        while isinstance(r_, ast.Attribute):
                            r_ = r_.value
                        if isinstance(r_, ast.Name):
                            v_roots.add(r_.id)
                v_items = any(isinstance(y, (ast.Subscript, ast.Starred))
                              for y in ast.walk(v))
                for c in list(crossing) + [None]:
                    for y in (ast.walk(c) if c is not None else inside):
                        if isinstance(y, (ast.Await, ast.Yield,
                                          ast.YieldFrom)):
                            moved = True
                        if isinstance(y, ast.Attribute) and isinstance(
                                y.ctx, (ast.Store, ast.Del)) and (
                                    y.attr in v_attrs or has_call):
                            moved = True
                        if isinstance(y, ast.Subscript) and isinstance(
                                y.ctx, (ast.Store, ast.Del)) and (
                                    v_items or has_call):
                            moved = True
                        if isinstance(y, ast.Call) and isinstance(
                                y.func, ast.Attribute):
                            r_ = y.func.value
                            while isinstance(r_, (ast.Attribute,
                                                  ast.Subscript, ast.Call)):
                                r_ = r_.value if not isinstance(
                                    r_, ast.Call) else r_.func
                            if isinstance(r_, ast.Name) and \
                                    r_.id in v_roots:
                                moved = True
                        # a value that calls something must not be moved
                        # over another call; plain reads may
                        if has_call and isinstance(y, ast.Call):
                            moved = True
                if moved:
                    continue
            t = _ParamSubst({name: v})
            del holder[idx]
            if not holder:
                holder.append(ast.copy_location(ast.Pass(), st))
            func.body = [t.visit(s) for s in func.body]
            n += 1
            progress = True
            break
        if not progress:
            break
    if n:
        for s in func.body:
            ast.fix_missing_locations(s)
    return n


def coalesce_aliases(func, known_locals):
    """`a = <expr>; ...; b = a` with `a` a single-assignment local the
    reference does not know and `b` assigned only there: one object under
    two names.  `a` is renamed to `b` and the alias statement goes (before
    it `b` was unbound, so no use of `b` changes its meaning)."""
    from .normalize import _params
    n = 0
    for _ in range(10):
        done = False
        stores = {}
        nested = set()
        for x in ast.walk(func):
            if isinstance(x, FUNC + (ast.Lambda, ast.ClassDef)) and \
                    x is not func:
                for y in ast.walk(x):
                    if isinstance(y, ast.Name):
                        nested.add(y.id)
            if isinstance(x, ast.Name) and isinstance(
                    x.ctx, (ast.Store, ast.Del)):
                stores.setdefault(x.id, []).append(x)
            if isinstance(x, ast.ExceptHandler) and x.name:
                stores.setdefault(x.name, []).append(x)
            if isinstance(x, (ast.Global, ast.Nonlocal)):
                nested.update(x.names)
        params = set(_params(func))
        for node in ast.walk(func):
            for fld in ("body", "orelse", "finalbody"):
                lst = getattr(node, fld, None)
                if not isinstance(lst, list):
                    continue
                for i, st in enumerate(lst):
                    if not (isinstance(st, ast.Assign) and len(
                            st.targets) == 1 and isinstance(
                                st.targets[0], ast.Name) and isinstance(
                                    st.value, ast.Name)):
                        continue
                    b, a = st.targets[0].id, st.value.id
                    if a == b or a in known_locals or a in params or \
                            b in params or a in nested or b in nested:
                        continue
                    if len(stores.get(a, [])) != 1 or len(
                            stores.get(b, [])) != 1:
                        continue
                    sa = stores[a][0]
                    holder = None
                    # `a` is bound by a plain assignment earlier in the
                    # same block (so it is bound whenever the alias runs)
                    for j in range(i):
                        pj = lst[j]
                        if isinstance(pj, ast.Assign) and len(
                                pj.targets) == 1 and pj.targets[0] is sa:
                            holder = j
                    if holder is None:
                        continue
                    for x in ast.walk(func):
                        if isinstance(x, ast.Name) and x.id == a:
                            x.id = b
                    del lst[i]
                    n += 1
                    done = True
                    break
                if done:
                    break
            if done:
                break
        if not done:
            break
    return n


def inline_block_temporaries(func, known_locals):
    """a local the reference does not know that is assigned in several
    places, each assignment feeding only the statements that follow it in
    the same block (`opcode = ...; emit(opcode)` in both branches of an
    if): substituted per assignment"""
    from .normalize import local_order, _params
    n = 0
    for name in [x for x in local_order(func) if x not in known_locals
                 and x not in _params(func)]:
        sites = []
        ok = True
        for node in ast.walk(func):
            if isinstance(node, FUNC + (ast.Lambda,)) and node is not func:
                if any(isinstance(y, ast.Name) and y.id == name
                       for y in ast.walk(node)):
                    ok = False
            for fld in ("body", "orelse", "finalbody"):
                lst = getattr(node, fld, None)
                if not isinstance(lst, list):
                    continue
                for i, st in enumerate(lst):
                    if isinstance(st, ast.Assign) and len(
                            st.targets) == 1 and isinstance(
                                st.targets[0], ast.Name) and \
                            st.targets[0].id == name:
                        sites.append((lst, i, st))
        stores = [x for x in ast.walk(func) if isinstance(x, ast.Name)
                  and x.id == name and isinstance(x.ctx, (ast.Store,
                                                          ast.Del))]
        if not ok or len(sites) < 2 or len(stores) != len(sites):
            continue
        loads = [x for x in ast.walk(func) if isinstance(x, ast.Name)
                 and x.id == name and isinstance(x.ctx, ast.Load)]
        cover = {}
        for lst, i, st in sites:
            v = st.value
            if any(isinstance(y, (ast.Await, ast.Yield, ast.YieldFrom,
                                  ast.NamedExpr, ast.List, ast.Dict, ast.Set,
                                  ast.ListComp, ast.DictComp, ast.SetComp))
                   for y in ast.walk(v)):
                ok = False
                break
            for j in range(i + 1, len(lst)):
                nxt = lst[j]
                if isinstance(nxt, ast.Assign) and any(
                        isinstance(t, ast.Name) and t.id == name
                        for t in nxt.targets):
                    break
                hit = [l for l in loads if any(y is l for y in ast.walk(nxt))]
                # only the directly following simple statement may use it
                if hit and j != i + 1:
                    ok = False
                # ... simple: no other assignment of the name can run
                # between this one and the use
                if hit and any(st2 is not st and any(
                        y is st2 for y in ast.walk(nxt))
                        for _, _, st2 in sites):
                    ok = False
                if hit and not isinstance(nxt, (
                        ast.Assign, ast.AugAssign, ast.AnnAssign, ast.Expr,
                        ast.Return, ast.Raise, ast.Assert)):
                    hd = {ast.If: "test", ast.While: "test",
                          ast.For: "iter"}.get(type(nxt))
                    head = getattr(nxt, hd) if hd else None
                    if head is None or not all(any(
                            y is l for y in ast.walk(head)) for l in hit) \
                            or isinstance(nxt, ast.While):
                        ok = False
                for l in hit:
                    cover[id(l)] = st
        if not ok or len(cover) != len(loads):
            continue
        # an assignment that feeds nothing here feeds something elsewhere
        if any(not any(cover[id(l)] is st for l in loads)
               for _, _, st in sites):
            continue
        # a value assigned inside a loop may come round again: every read
        # inside that loop must then be fed by an assignment inside it
        loops = [x for x in ast.walk(func) if isinstance(
            x, (ast.For, ast.AsyncFor, ast.While))]
        for lp in loops:
            inside = {id(y) for y in ast.walk(lp)}
            if any(id(st) in inside for _, _, st in sites):
                for l in loads:
                    if id(l) in inside and id(cover[id(l)]) not in inside:
                        ok = False
        if not ok:
            continue
        for lst, i, st in sorted(sites, key=lambda s: -s[1]):
            mine = [l for l in loads if cover[id(l)] is st]

            class T(ast.NodeTransformer):
                def visit_Name(self, node):
                    if any(node is l for l in mine):
                        return ast.copy_location(_clone(st.value), node)
                    return node
            if i + 1 < len(lst):
                lst[i + 1] = T().visit(lst[i + 1])
            del lst[i]
            if not lst:
                lst.append(ast.copy_location(ast.Pass(), st))
            n += 1
    if n:
        for s_ in func.body:
            ast.fix_missing_locations(s_)
    return n


def _find_assign(func, name):
    for node in ast.walk(func):
        for fld in ("body", "orelse", "finalbody"):
            lst = getattr(node, fld, None)
            if not isinstance(lst, list):
                continue
            for i, st in enumerate(lst):
                if isinstance(st, ast.Assign) and len(st.targets) == 1 and \
                        isinstance(st.targets[0], ast.Name) and \
                        st.targets[0].id == name:
                    return lst, i, st
    return None, None, None
