"""command line: python -m sa.check <property id> [--tier quick|thorough]

exit 0: every obligation discharged (or only known findings)
exit 1: VIOLATION lines printed
exit 2: ANALYSIS-ERROR (the analysis could not be carried out; no verdict)
"""
import argparse
import importlib
import json
import os
import sys
import traceback

from .index import AnalysisError, Repo
from .report import Check


def run(prop, tier, root=None, evidence_dir=None, quiet=False):
    repo = Repo(root)
    mod = importlib.import_module(f"sa.rules.{prop.lower()}")
    chk = Check(prop, tier, repo, evidence_dir, quiet)
    chk.explanation = mod.EXPLANATION
    chk.assumptions = list(getattr(mod, "ASSUMPTIONS", []))
    try:
        mod.run(chk, repo)
        _generic(chk, repo, prop)
    except AnalysisError as e:
        # a later rule could not be carried out.  If the rules that did run
        # already established violations (failed obligations that are not
        # known findings) those stand; otherwise there is no verdict.
        open_keys = {k["key"] for k in chk.known()
                     if k.get("status") == "open"}
        if not any(not o.ok and o.key not in open_keys
                   for o in chk.obligations):
            raise
        chk.note(f"ANALYSIS-INCOMPLETE: {e} (the remaining rules were not "
                 f"evaluated; the violations below were established "
                 f"before)")
    return chk.finish()


def _generic(chk, repo, prop):
    """rules that apply to every property alike, over the modules its
    anchors name (properties.jsonl)"""
    from .rules.common import module_state_rule
    verif = os.path.dirname(os.path.dirname(os.path.abspath(__file__)))
    files = []
    try:
        with open(os.path.join(verif, "properties.jsonl")) as fin:
            for line in fin:
                d = json.loads(line)
                if d.get("id") == prop:
                    files = d.get("anchors", {}).get("files", [])
    except (OSError, ValueError):
        return
    mods = [f[:-3].replace("/", ".") for f in files if f.endswith(".py")]
    if not mods:
        return
    rule = f"R{prop[1:]}.0"
    chk.doc(rule, "no hidden process-wide state in the anchored modules")
    module_state_rule(chk, repo, rule, mods,
                      "what one caller (request, terminal, program, "
                      "layout) left there is handed to the next")


def main(argv=None):
    ap = argparse.ArgumentParser()
    ap.add_argument("prop")
    ap.add_argument("--tier", default=os.environ.get("VERIF_TIER", "quick"),
                    choices=["quick", "thorough"])
    ap.add_argument("--root", default=None)
    ap.add_argument("--evidence-dir", default=None)
    ap.add_argument("--replay", default=None,
                    help="re-derive the obligation recorded in this file")
    args = ap.parse_args(argv)
    try:
        if args.replay:
            with open(args.replay) as fin:
                rec = json.load(fin)
            repo = Repo(args.root)
            mod = importlib.import_module(f"sa.rules.{args.prop.lower()}")
            chk = Check(args.prop, args.tier, repo,
                        args.evidence_dir or "/tmp/sa-replay", quiet=True)
            chk.explanation = mod.EXPLANATION
            mod.run(chk, repo)
            hits = [o for o in chk.obligations
                    if o.rule == rec["rule"] and o.symbol == rec["symbol"]
                    and o.instance == rec["instance"]]
            for o in hits:
                print(json.dumps(o.record(), indent=1))
            if not hits:
                print("obligation not produced on this tree")
                return 2
            return 0 if all(o.ok for o in hits) else 1
        rc = run(args.prop, args.tier, args.root, args.evidence_dir)
        if rc == 0 and args.tier == "thorough":
            from . import selfval
            rc = selfval.run(args.prop, args.root, args.evidence_dir)
        return rc
    except AnalysisError as e:
        print(f"ANALYSIS-ERROR property={args.prop}: {e}")
        return 2
    except Exception:
        print(f"ANALYSIS-ERROR property={args.prop}: internal error")
        traceback.print_exc(file=sys.stdout)
        return 2


if __name__ == "__main__":
    sys.exit(main())
