"""E0 - source normalisation, applied to every module right after parsing.

Two behaviour-preserving rewrites of the *syntax tree the rules see* (the
file on disk is never touched; positions are kept, so reports still point at
the real lines):

strip_noise     statements that cannot influence any property are removed:
                ``pass`` next to other statements, and diagnostics
                (``logging.xxx(...)``, ``print(...)``, ``warnings.warn(...)``)
                whose arguments are free of calls with possible effects,
                awaits, yields and assignments.  A rule that looks at "the
                statement after X" must not be confused by a trace line.

recover_names   local variables are identified by *role*, not by spelling.
                The rules were written against the names the locals have in
                the tree they were developed on (sa/refnames.json: for every
                function the list of its locals in order of first binding).
                When the current function lacks some of those names and has
                others the reference does not know, the two are aligned by
                order of first binding between the names both sides share,
                and the tree is alpha-renamed to the reference spelling.  The
                table is used for *naming only*: every verdict is still
                computed from the structure of the current source.  If the
                alignment is ambiguous nothing is renamed (the rule then sees
                unknown names and reports an analysis error, never a guess).
"""
import ast
import json
import os

FUNC = (ast.FunctionDef, ast.AsyncFunctionDef)

_PURE_BUILTINS = {
    "len", "str", "repr", "hex", "oct", "bin", "int", "float", "bool", "type",
    "id", "abs", "min", "max", "sum", "sorted", "list", "tuple", "dict", "set",
    "bytes", "ord", "chr", "round", "format", "isinstance", "getattr", "hasattr",
}
_DIAG_MODULES = {"logging", "warnings", "logger", "log"}
_DIAG_FUNCS = {"print"}


# names the other modules of the package refer to (set by the index while
# it loads a module): what they may call is not a dead helper
EXTERNAL_REFS = set()


def _pure_expr(e):
    for n in ast.walk(e):
        if isinstance(n, (ast.Await, ast.Yield, ast.YieldFrom, ast.NamedExpr,
                          ast.Lambda, ast.ListComp, ast.SetComp, ast.DictComp,
                          ast.GeneratorExp)):
            return False
        if isinstance(n, ast.Call):
            f = n.func
            if isinstance(f, ast.Name) and f.id in _PURE_BUILTINS:
                continue
            if isinstance(f, ast.Attribute) and f.attr in (
                    "hex", "decode", "format", "name", "join"):
                continue
            return False
    return True


def _is_diag(stmt):
    if not isinstance(stmt, ast.Expr) or not isinstance(stmt.value, ast.Call):
        return False
    c = stmt.value
    f = c.func
    ok = False
    if isinstance(f, ast.Name) and f.id in _DIAG_FUNCS:
        ok = True
    elif isinstance(f, ast.Attribute) and isinstance(f.value, ast.Name) \
            and f.value.id in _DIAG_MODULES:
        ok = True
    elif isinstance(f, ast.Attribute) and isinstance(f.value, ast.Attribute) \
            and f.value.attr in ("logger", "log") and f.attr in (
                "debug", "info", "warning", "warn", "error", "exception",
                "critical"):
        ok = True
    if not ok:
        return False
    return all(_pure_expr(a) for a in c.args) and all(
        _pure_expr(k.value) for k in c.keywords)


def _is_noise(stmt):
    if isinstance(stmt, ast.Pass):
        return True
    return _is_diag(stmt)


def strip_noise(tree):
    """remove no-op statements in place; returns how many were removed"""
    removed = 0
    for node in ast.walk(tree):
        if isinstance(node, ast.ClassDef):
            continue
        for fld in ("body", "orelse", "finalbody"):
            lst = getattr(node, fld, None)
            if not isinstance(lst, list) or not lst or not isinstance(
                    lst[0], ast.stmt):
                continue
            keep = [s for s in lst if not _is_noise(s)]
            if len(keep) == len(lst):
                continue
            if not keep:
                if fld == "body":
                    # a block must not become empty: keep one `pass`
                    p = ast.Pass()
                    ast.copy_location(p, lst[0])
                    keep = [p]
                    if len(lst) == 1 and isinstance(lst[0], ast.Pass):
                        continue
            removed += len(lst) - len(keep)
            lst[:] = keep
    return removed


# ------------------------------------------------------------ local names
def _params(func):
    a = func.args
    out = [x.arg for x in a.posonlyargs + a.args + a.kwonlyargs]
    if a.vararg:
        out.append(a.vararg.arg)
    if a.kwarg:
        out.append(a.kwarg.arg)
    return out


class _Locals(ast.NodeVisitor):
    """locals of one function in order of first binding (own scope only:
    nested defs, lambdas, classes and comprehensions are separate scopes)"""

    def __init__(self, func):
        self.order = []
        self.excluded = set(_params(func))
        for s in func.body:
            self.visit(s)

    def _bind(self, name):
        if name not in self.excluded and name not in self.order:
            self.order.append(name)

    def visit_Name(self, node):
        if isinstance(node.ctx, (ast.Store, ast.Del)):
            self._bind(node.id)

    def visit_FunctionDef(self, node):
        self.excluded.add(node.name)
        for d in node.decorator_list:
            self.visit(d)
    visit_AsyncFunctionDef = visit_FunctionDef

    def visit_ClassDef(self, node):
        self.excluded.add(node.name)

    def visit_Lambda(self, node):
        pass

    def visit_ListComp(self, node):
        # the first iterable is evaluated in the enclosing scope, but it
        # cannot bind a name there (walrus aside, which the package does
        # not use inside comprehensions)
        pass
    visit_SetComp = visit_DictComp = visit_GeneratorExp = visit_ListComp

    def visit_Global(self, node):
        self.excluded.update(node.names)

    def visit_Nonlocal(self, node):
        self.excluded.update(node.names)

    def visit_ExceptHandler(self, node):
        if node.name:
            self._bind(node.name)
        self.generic_visit(node)

    def visit_Import(self, node):
        for a in node.names:
            self._bind(a.asname or a.name.split(".")[0])
    visit_ImportFrom = visit_Import

    def visit_Assign(self, node):
        # value first (evaluation order), then targets: keeps the order of
        # first binding independent of nested walrus use
        self.visit(node.value)
        for t in node.targets:
            self.visit(t)

    def visit_AugAssign(self, node):
        self.visit(node.value)
        self.visit(node.target)

    def visit_For(self, node):
        self.visit(node.iter)
        self.visit(node.target)
        for s in node.body + node.orelse:
            self.visit(s)
    visit_AsyncFor = visit_For


def local_order(func):
    return _Locals(func).order


def function_table(tree, modname):
    """qualified name -> FunctionDef for every def in the module"""
    out = {}

    def rec(node, prefix):
        for c in ast.iter_child_nodes(node):
            if isinstance(c, FUNC + (ast.ClassDef,)):
                q = prefix + "." + c.name
                if isinstance(c, FUNC):
                    # several defs of one name in one scope (the closures
                    # `get`/`set` of PacketVar): number them
                    k = 2
                    base = q
                    while q in out:
                        q = f"{base}#{k}"
                        k += 1
                    out[q] = c
                rec(c, q)
            else:
                rec(c, prefix)
    rec(tree, modname)
    return out


def _align(cur, ref):
    """map current-only names to reference-only names by position between
    the names both lists share; None if the alignment is not unique"""
    cs, rs = set(cur), set(ref)
    extra = [n for n in cur if n not in rs]
    missing = [n for n in ref if n not in cs]
    if not extra or not missing:
        return {}
    common_cur = [n for n in cur if n in rs]
    common_ref = [n for n in ref if n in cs]
    if common_cur != common_ref:
        # shared names appear in a different order: segment by the longest
        # common prefix/suffix only
        return _align_loose(cur, ref, cs, rs)
    mapping = {}

    def segments(lst, shared):
        segs, curseg = [], []
        for n in lst:
            if n in shared:
                segs.append(curseg)
                curseg = []
            else:
                curseg.append(n)
        segs.append(curseg)
        return segs
    for a, b in zip(segments(cur, rs), segments(ref, cs)):
        if len(a) == len(b):
            mapping.update(zip(a, b))
        # a segment with different counts is left alone: some local was
        # added or removed there and the roles cannot be told apart
    return mapping


def _align_loose(cur, ref, cs, rs):
    mapping = {}
    if len(cur) == len(ref):
        for a, b in zip(cur, ref):
            if a == b:
                continue
            if a in rs or b in cs:
                return {}
            mapping[a] = b
    return mapping


class _Rename(ast.NodeTransformer):
    def __init__(self, mapping):
        self.mapping = mapping

    def visit_Name(self, node):
        new = self.mapping.get(node.id)
        if new is not None:
            node._orig_id = node.id
            node.id = new
        return node

    def visit_ExceptHandler(self, node):
        if node.name in self.mapping:
            node.name = self.mapping[node.name]
        self.generic_visit(node)
        return node

    def _nested(self, node):
        # a nested scope sees the enclosing local unless it rebinds it
        if isinstance(node, ast.Lambda):
            bound = set(_params(node))
            inner = {k: v for k, v in self.mapping.items() if k not in bound}
            if inner:
                node.body = _Rename(inner).visit(node.body)
            return node
        bound = set(_params(node)) | set(local_order(node))
        for n in ast.walk(node):
            if isinstance(n, ast.Nonlocal):
                bound -= set(n.names)
                n.names = [self.mapping.get(x, x) for x in n.names]
        inner = {k: v for k, v in self.mapping.items() if k not in bound}
        if inner:
            r = _Rename(inner)
            node.body = [r.visit(s) for s in node.body]
        return node

    def visit_FunctionDef(self, node):
        return self._nested(node)
    visit_AsyncFunctionDef = visit_Lambda = visit_FunctionDef

    def visit_ClassDef(self, node):
        return node


_REF = None


def reference():
    global _REF
    if _REF is None:
        path = os.path.join(os.path.dirname(os.path.abspath(__file__)),
                            "refnames.json")
        try:
            with open(path) as fin:
                _REF = json.load(fin)
        except OSError:
            _REF = {}
    return _REF


def local_fingerprints(func):
    """name -> digest of how the local is first bound (the binding
    statement with every local name blanked out and the position of the
    name among the targets): a renamed variable keeps it"""
    import hashlib
    locs = set(local_order(func)) | set(_params(func))
    out = {}

    def blank(node):
        node = __import__("copy").deepcopy(node)
        for x in ast.walk(node):
            if isinstance(x, ast.Name) and x.id in locs:
                x.id = "_"
            elif isinstance(x, ast.arg) and x.arg in locs:
                x.arg = "_"
        return ast.unparse(node)

    def note(target, ctxtext):
        names = [x for x in ast.walk(target) if isinstance(x, ast.Name)
                 and isinstance(x.ctx, ast.Store)]
        for i, x in enumerate(names):
            if x.id not in out and x.id in locs:
                out[x.id] = hashlib.sha1(
                    f"{i}/{len(names)}|{ctxtext}".encode()).hexdigest()[:12]
    for st in ast.walk(func):
        if isinstance(st, FUNC) and st is not func:
            continue
        if isinstance(st, ast.Assign):
            for t in st.targets:
                note(t, "assign " + blank(st.value))
        elif isinstance(st, (ast.For, ast.AsyncFor)):
            note(st.target, "for " + blank(st.iter))
        elif isinstance(st, (ast.With, ast.AsyncWith)):
            for it in st.items:
                if it.optional_vars is not None:
                    note(it.optional_vars, "with " + blank(it.context_expr))
        elif isinstance(st, ast.ExceptHandler) and st.name:
            if st.name not in out:
                out[st.name] = hashlib.sha1(
                    ("except " + (ast.unparse(st.type) if st.type else "")
                     ).encode()).hexdigest()[:12]
    return out


def _temp_candidates(func, names):
    """names assigned exactly once and read exactly once: a refactoring's
    named temporaries rather than renamed variables"""
    out = set()
    for nm in names:
        st = ld = 0
        for x in ast.walk(func):
            if isinstance(x, ast.Name) and x.id == nm:
                if isinstance(x.ctx, (ast.Store, ast.Del)):
                    st += 1
                else:
                    ld += 1
        plain = any(isinstance(x, ast.Assign) and len(x.targets) == 1
                    and isinstance(x.targets[0], ast.Name)
                    and x.targets[0].id == nm for x in ast.walk(func))
        if st == 1 and ld == 1 and plain:
            out.add(nm)
    return out


def recover_names(tree, modname, ref=None):
    """alpha-rename locals to the reference spelling; returns
    {function qualname: {current name: reference name}} for the report"""
    ref = reference() if ref is None else ref
    ref = ref.get("locals", ref)
    done = {}
    table = function_table(tree, modname)
    # outer functions first, so that a nested function sees the recovered
    # spelling of the enclosing locals it uses
    for q in sorted(table, key=lambda s: s.count(".")):
        want = ref.get(q)
        if not want:
            continue
        func = table[q]
        cur = local_order(func)
        # first by how the variable is bound (a rename keeps that) ...
        fps = reference().get("fingerprints", {}).get(q, {})
        pre = {}
        if fps and set(cur) - set(want) and set(want) - set(cur):
            mine = local_fingerprints(func)
            extra = [n for n in cur if n not in want]
            for m in [n for n in want if n not in cur]:
                fp = fps.get(m)
                hits = [e for e in extra if mine.get(e) == fp
                        and e not in pre]
                same_ref = [n for n in want if fps.get(n) == fp]
                if fp and len(hits) == 1 and len(same_ref) == 1:
                    pre[hits[0]] = m
        if pre:
            taken0 = set(cur) | set(_params(func))
            pre = {a: b for a, b in pre.items() if b not in taken0}
            if pre:
                r0 = _Rename(pre)
                func.body = [r0.visit(s) for s in func.body]
                done.setdefault(q, {}).update(pre)
                cur = local_order(func)
        # ... then by order of first binding
        mapping = _align(cur, want)
        if not mapping and set(cur) - set(want) and set(want) - set(cur):
            # the refactoring may have added temporaries of its own: leave
            # those out of the alignment
            tc = _temp_candidates(func, set(cur) - set(want))
            if tc:
                mapping = _align([n for n in cur if n not in tc], want)
        if not mapping:
            continue
        taken = set(cur) | set(_params(func))
        mapping = {a: b for a, b in mapping.items() if b not in taken}
        if fps and mapping:
            # a variable that is bound in a different way is another
            # variable, not a renamed one
            mine = local_fingerprints(func)
            mapping = {a: b for a, b in mapping.items()
                       if fps.get(b) is None or mine.get(a) is None
                       or fps.get(b) == mine.get(a)}
        if not mapping:
            continue
        r = _Rename(mapping)
        func.body = [r.visit(s) for s in func.body]
        done.setdefault(q, {}).update(mapping)
    return done


def split_divmod(tree):
    """`q, r = divmod(a, k)` is `q = a // k; r = a % k` (a and k simple:
    evaluated twice, no effects)"""
    n = 0
    for owner in ast.walk(tree):
        for fld in ("body", "orelse", "finalbody"):
            lst = getattr(owner, fld, None)
            if not isinstance(lst, list) or not lst or not isinstance(
                    lst[0], ast.stmt):
                continue
            out = []
            for st in lst:
                if isinstance(st, ast.Assign) and len(st.targets) == 1 and \
                        isinstance(st.targets[0], ast.Tuple) and len(
                            st.targets[0].elts) == 2 and all(isinstance(
                                e, ast.Name) for e in st.targets[0].elts) \
                        and isinstance(st.value, ast.Call) and isinstance(
                            st.value.func, ast.Name) and \
                        st.value.func.id == "divmod" and len(
                            st.value.args) == 2 and not st.value.keywords \
                        and all(_simple_subject(a) for a in st.value.args) \
                        and not any(isinstance(a, ast.Name) and a.id in (
                            st.targets[0].elts[0].id,
                            st.targets[0].elts[1].id)
                            for a in st.value.args):
                    from copy import deepcopy
                    a, k = st.value.args
                    q, r = st.targets[0].elts
                    s1 = ast.Assign(targets=[q], value=ast.BinOp(
                        left=deepcopy(a), op=ast.FloorDiv(),
                        right=deepcopy(k)))
                    s2 = ast.Assign(targets=[r], value=ast.BinOp(
                        left=deepcopy(a), op=ast.Mod(), right=deepcopy(k)))
                    for x in (s1, s2):
                        ast.copy_location(x, st)
                        ast.fix_missing_locations(x)
                    out += [s1, s2]
                    n += 1
                elif isinstance(st, ast.Assign) and len(st.targets) > 1 \
                        and isinstance(st.value, (ast.Name, ast.Constant)) \
                        and not any(isinstance(x, ast.Name) and isinstance(
                            st.value, ast.Name) and x.id == st.value.id
                            for t in st.targets for x in ast.walk(t)):
                    # `a = b = v` is `a = v; b = v` for a name or literal v
                    from copy import deepcopy
                    for t in st.targets:
                        s1 = ast.Assign(targets=[t],
                                        value=deepcopy(st.value))
                        ast.copy_location(s1, st)
                        out.append(s1)
                    n += 1
                else:
                    out.append(st)
            lst[:] = out
    return n


def _truth_context(e):
    """in a test, `bool(x) is False` is `not x` and `bool(x) is True` is
    `x` (through and / or / not)"""
    if isinstance(e, ast.BoolOp):
        e.values = [_truth_context(v) for v in e.values]
        return e
    if isinstance(e, ast.UnaryOp) and isinstance(e.op, ast.Not):
        e.operand = _truth_context(e.operand)
        return e
    if isinstance(e, ast.Compare) and len(e.ops) == 1 and isinstance(
            e.ops[0], (ast.Is, ast.Eq, ast.IsNot, ast.NotEq)) and isinstance(
                e.left, ast.Call) and isinstance(e.left.func, ast.Name) \
            and e.left.func.id == "bool" and len(e.left.args) == 1 and \
            not e.left.keywords and isinstance(
                e.comparators[0], ast.Constant) and isinstance(
                    e.comparators[0].value, bool):
        want = e.comparators[0].value
        if isinstance(e.ops[0], (ast.IsNot, ast.NotEq)):
            want = not want
        x = e.left.args[0]
        return x if want else ast.copy_location(
            ast.UnaryOp(op=ast.Not(), operand=x), e)
    if isinstance(e, ast.Call) and isinstance(e.func, ast.Name) and \
            e.func.id == "bool" and len(e.args) == 1 and not e.keywords:
        return e.args[0]        # bool(x) as a test is x
    return e


def canon_shapes(tree):
    """`if not c: A else: B` -> `if c: B else: A`;  `n = n + 3` -> `n += 3`
    (plain local, integer literal).  One spelling per meaning, so that the
    rules need to know only one."""
    n_if = n_aug = 0
    from .inline import literal_attr_calls
    literal_attr_calls(tree)
    for node in ast.walk(tree):
        if isinstance(node, (ast.If, ast.While, ast.IfExp)):
            node.test = _truth_context(node.test)
    for node in ast.walk(tree):
        # `with A, B: body` is `with A: with B: body`; the nested spelling is
        # the canonical one (every `with` has exactly one item)
        # `''.join([f(x) for x in xs])` is `''.join(f(x) for x in xs)`
        if isinstance(node, ast.Call) and len(node.args) == 1 and \
                not node.keywords and isinstance(node.args[0], ast.ListComp) \
                and ((isinstance(node.func, ast.Attribute)
                      and node.func.attr == "join")
                     or (isinstance(node.func, ast.Name) and node.func.id in (
                         "any", "all", "sum", "min", "max", "tuple", "list",
                         "set", "frozenset", "sorted", "bytes",
                         "bytearray"))):
            lc = node.args[0]
            node.args[0] = ast.copy_location(ast.GeneratorExp(
                elt=lc.elt, generators=lc.generators), lc)
        # a length is an integer: `len(x) >= 15` is `len(x) > 14`
        if isinstance(node, ast.Compare) and len(node.ops) == 1 and \
                isinstance(node.ops[0], (ast.GtE, ast.LtE)) and isinstance(
                    node.left, ast.Call) and isinstance(
                        node.left.func, ast.Name) and \
                node.left.func.id == "len" and isinstance(
                    node.comparators[0], ast.Constant) and type(
                        node.comparators[0].value) is int:
            k = node.comparators[0].value
            if isinstance(node.ops[0], ast.GtE):
                node.ops = [ast.Gt()]
                node.comparators = [ast.copy_location(
                    ast.Constant(value=k - 1), node.comparators[0])]
            else:
                node.ops = [ast.Lt()]
                node.comparators = [ast.copy_location(
                    ast.Constant(value=k + 1), node.comparators[0])]
        cur = node
        while isinstance(cur, (ast.With, ast.AsyncWith)) and len(
                cur.items) > 1:
            inner = type(cur)(items=cur.items[1:], body=cur.body)
            ast.copy_location(inner, cur.items[1].context_expr)
            inner.end_lineno = getattr(cur, "end_lineno", None)
            inner.end_col_offset = getattr(cur, "end_col_offset", None)
            cur.items = cur.items[:1]
            cur.body = [inner]
            cur = inner
        if isinstance(node, (ast.If, ast.While)) and isinstance(
                node.test, ast.UnaryOp) and isinstance(
                    node.test.op, ast.Not) and isinstance(
                        node.test.operand, ast.Compare) and len(
                            node.test.operand.ops) == 1 and type(
                                node.test.operand.ops[0]) in (
                                    ast.In, ast.NotIn, ast.Is, ast.IsNot):
            node.test = negate(node.test.operand)
        if isinstance(node, (ast.If, ast.While)) and isinstance(
                node.test, ast.UnaryOp) and isinstance(
                    node.test.op, ast.Not) and isinstance(
                        node.test.operand, ast.BoolOp) and not getattr(
                            node, "orelse", None):
            node.test = negate(node.test.operand)
        if isinstance(node, ast.If) and node.orelse and isinstance(
                node.test, ast.UnaryOp) and isinstance(node.test.op, ast.Not):
            node.test = node.test.operand
            node.body, node.orelse = node.orelse, node.body
            n_if += 1
        for fld in ("body", "orelse", "finalbody"):
            lst = getattr(node, fld, None)
            if not isinstance(lst, list):
                continue
            for i, st in enumerate(lst):
                if isinstance(st, ast.Assign) and len(st.targets) == 1 \
                        and isinstance(st.targets[0], ast.Name) \
                        and isinstance(st.value, ast.BinOp) \
                        and isinstance(st.value.op, (ast.Add, ast.Sub)) \
                        and isinstance(st.value.left, ast.Name) \
                        and st.value.left.id == st.targets[0].id \
                        and isinstance(st.value.right, ast.Constant) \
                        and isinstance(st.value.right.value, int) \
                        and not isinstance(st.value.right.value, bool):
                    new = ast.AugAssign(target=st.targets[0], op=st.value.op,
                                        value=st.value.right)
                    ast.copy_location(new, st)
                    lst[i] = new
                    n_aug += 1
    return n_if, n_aug


class _Fold(ast.NodeTransformer):
    """integer arithmetic on literals is folded: `(1 << 9) // 8`, `1 << 6`
    and `64` are one and the same"""
    _OPS = {ast.Add: lambda a, b: a + b, ast.Sub: lambda a, b: a - b,
            ast.Mult: lambda a, b: a * b, ast.FloorDiv: lambda a, b: a // b,
            ast.Mod: lambda a, b: a % b, ast.LShift: lambda a, b: a << b,
            ast.RShift: lambda a, b: a >> b, ast.BitOr: lambda a, b: a | b,
            ast.BitAnd: lambda a, b: a & b, ast.BitXor: lambda a, b: a ^ b,
            ast.Pow: lambda a, b: a ** b}

    @staticmethod
    def _int(n):
        return isinstance(n, ast.Constant) and isinstance(n.value, int) \
            and not isinstance(n.value, bool)

    def visit_BinOp(self, node):
        self.generic_visit(node)
        # "p" + "B" is "pB"
        if isinstance(node.op, ast.Add) and isinstance(
                node.left, ast.Constant) and isinstance(
                    node.right, ast.Constant) and isinstance(
                        node.left.value, str) and isinstance(
                            node.right.value, str):
            return ast.copy_location(
                ast.Constant(node.left.value + node.right.value), node)
        if self._int(node.left) and self._int(node.right) and type(
                node.op) in self._OPS:
            a, b = node.left.value, node.right.value
            try:
                if isinstance(node.op, (ast.LShift, ast.Pow)) and not (
                        0 <= b <= 64):
                    return node
                v = self._OPS[type(node.op)](a, b)
            except (ZeroDivisionError, ValueError, OverflowError):
                return node
            if abs(v) < 1 << 70:
                return ast.copy_location(ast.Constant(v), node)
        return self._collect(node)

    def _collect(self, node):
        """`0x600 + 0x10 * i + 0xc` is `0x60c + 0x10 * i`: the integer
        literals of one additive chain are gathered where the first of
        them stands"""
        if not isinstance(node.op, (ast.Add, ast.Sub)):
            return node
        terms = []

        def flat(e, sign):
            if isinstance(e, ast.BinOp) and isinstance(
                    e.op, (ast.Add, ast.Sub)):
                flat(e.left, sign)
                # a - (b + c) is not re-associated: only left chains
                terms.append((sign if isinstance(e.op, ast.Add) else -sign,
                              e.right))
            else:
                terms.append((sign, e))
        flat(node, 1)
        consts = [i for i, (sg, t) in enumerate(terms) if self._int(t)]
        if len(consts) < 2 or len(consts) == len(terms):
            return node
        total = sum(terms[i][0] * terms[i][1].value for i in consts)
        first = consts[0]
        new = []
        for i, (sg, t) in enumerate(terms):
            if i == first:
                if total:
                    new.append((1 if total > 0 or i == 0 else -1,
                                ast.Constant(total if total > 0 or i == 0
                                             else -total)))
            elif i not in consts:
                new.append((sg, t))
        if new[0][0] < 0:
            # keep a leading positive term: give up on exotic chains
            return node
        out = new[0][1]
        for sg, t in new[1:]:
            out = ast.BinOp(left=out, op=ast.Add() if sg > 0 else ast.Sub(),
                            right=t)
        ast.copy_location(out, node)
        ast.fix_missing_locations(out)
        return out

    def visit_JoinedStr(self, node):
        self.generic_visit(node)
        # f"p{'B'}" is "pB"
        parts = []
        for v in node.values:
            if isinstance(v, ast.Constant) and isinstance(v.value, str):
                parts.append(v.value)
            elif isinstance(v, ast.FormattedValue) and isinstance(
                    v.value, ast.Constant) and isinstance(
                        v.value.value, str) and v.conversion == -1 \
                    and v.format_spec is None:
                parts.append(v.value.value)
            else:
                return node
        return ast.copy_location(ast.Constant("".join(parts)), node)

    calcsize = ()

    def visit_Call(self, node):
        self.generic_visit(node)
        # calcsize("<HHBB") is 6 (struct's own calcsize only)
        if ast.unparse(node.func) in self.calcsize and len(node.args) == 1 \
                and not node.keywords and isinstance(
                    node.args[0], ast.Constant) and isinstance(
                        node.args[0].value, str):
            import struct
            try:
                return ast.copy_location(ast.Constant(struct.calcsize(
                    node.args[0].value)), node)
            except struct.error:
                return node
        return node

    def visit_UnaryOp(self, node):
        self.generic_visit(node)
        if isinstance(node.op, (ast.USub, ast.Invert)) and self._int(
                node.operand):
            v = -node.operand.value if isinstance(node.op, ast.USub) \
                else ~node.operand.value
            return ast.copy_location(ast.Constant(v), node)
        return node


def fold_constants(tree):
    f = _Fold()
    names = set()
    for n in ast.walk(tree):
        if isinstance(n, ast.ImportFrom) and n.module == "struct" \
                and not n.level:
            names.update(a.asname or a.name for a in n.names
                         if a.name == "calcsize")
        elif isinstance(n, ast.Import):
            names.update((a.asname or a.name) + ".calcsize"
                         for a in n.names if a.name == "struct")
    # a module that defines its own calcsize is left alone
    own = {n.name for n in ast.walk(tree) if isinstance(
        n, (ast.FunctionDef, ast.AsyncFunctionDef, ast.ClassDef))}
    f.calcsize = tuple(n for n in names if n.split(".")[0] not in own)
    return f.visit(tree)


def _literal_truth(e):
    """truth of a test made of literals only (`None is not None`, left
    behind where a helper was inlined with a constant argument)"""
    if isinstance(e, ast.Constant):
        return bool(e.value)
    if isinstance(e, ast.UnaryOp) and isinstance(e.op, ast.Not):
        v = _literal_truth(e.operand)
        return None if v is None else not v
    if isinstance(e, ast.Compare) and len(e.ops) == 1 and isinstance(
            e.left, ast.Constant) and isinstance(e.comparators[0],
                                                 ast.Constant):
        a, b = e.left.value, e.comparators[0].value
        op = e.ops[0]
        small = lambda x: x is None or isinstance(x, (bool, int))
        if isinstance(op, (ast.Is, ast.IsNot)) and small(a) and small(b):
            same = (a is b) or (type(a) is type(b) and a == b)
            return same == isinstance(op, ast.Is)
        if isinstance(op, (ast.Eq, ast.NotEq)):
            try:
                return (a == b) == isinstance(op, ast.Eq)
            except Exception:
                return None
    return None


def drop_dead_branches(tree):
    """`if <literal test>: A else: B` is A or B"""
    n = 0
    for node in ast.walk(tree):
        for fld in ("body", "orelse", "finalbody"):
            lst = getattr(node, fld, None)
            if not isinstance(lst, list) or not lst or not isinstance(
                    lst[0], ast.stmt):
                continue
            out = []
            for st in lst:
                v = _literal_truth(st.test) if isinstance(st, ast.If) \
                    else None
                if v is None:
                    out.append(st)
                else:
                    out.extend(st.body if v else st.orelse)
                    n += 1
            if not out:
                out = [ast.copy_location(ast.Pass(), lst[0])]
            lst[:] = out
    return n


def _leaves(stmts):
    if not stmts:
        return False
    last = stmts[-1]
    if isinstance(last, (ast.Return, ast.Raise, ast.Continue, ast.Break)):
        return True
    if isinstance(last, ast.If) and last.orelse:
        return _leaves(last.body) and _leaves(last.orelse)
    return False


_NEG_OP = {ast.In: ast.NotIn, ast.NotIn: ast.In, ast.Is: ast.IsNot,
           ast.IsNot: ast.Is, ast.Eq: ast.NotEq, ast.NotEq: ast.Eq,
           ast.Lt: ast.GtE, ast.GtE: ast.Lt, ast.Gt: ast.LtE,
           ast.LtE: ast.Gt}


def negate(e):
    """the negation of a Python-level condition, in its simplest spelling"""
    if isinstance(e, ast.UnaryOp) and isinstance(e.op, ast.Not):
        return e.operand
    if isinstance(e, ast.Compare) and len(e.ops) == 1 and type(
            e.ops[0]) in _NEG_OP:
        return ast.copy_location(ast.Compare(
            left=e.left, ops=[_NEG_OP[type(e.ops[0])]()],
            comparators=e.comparators), e)
    if isinstance(e, ast.BoolOp):
        # De Morgan
        return ast.copy_location(ast.BoolOp(
            op=ast.And() if isinstance(e.op, ast.Or) else ast.Or(),
            values=[negate(v) for v in e.values]), e)
    return ast.copy_location(ast.UnaryOp(op=ast.Not(), operand=e), e)


def _raises_only(stmts):
    """does the block leave by raising (an error exit: those guards stay
    guards, the code after them is not nested under an else)"""
    last = stmts[-1]
    if isinstance(last, ast.Raise):
        return True
    if isinstance(last, ast.If) and last.orelse:
        return _raises_only(last.body) or _raises_only(last.orelse)
    return False


def _same_stmt(a, b):
    return type(a) is type(b) and ast.unparse(a) == ast.unparse(b)


def _is_bare_leave(st, ctx):
    if isinstance(st, ast.Continue):
        return ctx == "loop"
    if isinstance(st, ast.Return):
        return ctx == "func" and (st.value is None or (isinstance(
            st.value, ast.Constant) and st.value.value is None))
    return False


def canon_flow(tree):
    """one shape for early exits - the structured one:
    * `if c: A(leaves)` ; REST            ->  `if c: A else: REST`
    * both branches end in the same `return x` / `continue` / `raise`
                                          ->  that statement follows the if
    * a trailing bare `continue` at the end of a loop body, a bare `return`
      at the end of a function            ->  dropped
    * `if c: pass else: B`                ->  `if not c: B`
    * `while True: if c: break; BODY`     ->  `while not c: BODY`
    applied until nothing changes"""
    n = 0

    def do(lst, ctx):
        """ctx: 'loop' if falling off the end of lst continues a loop,
        'func' if it ends the function, None otherwise"""
        nonlocal n
        changed = True
        while changed:
            changed = False
            i = 0
            while i < len(lst):
                st = lst[i]
                last = i == len(lst) - 1
                if isinstance(st, FUNC):
                    do(st.body, "func")
                elif isinstance(st, (ast.For, ast.AsyncFor, ast.While)):
                    do(st.body, "loop")
                    do(st.orelse, None)
                elif isinstance(st, ast.If):
                    do(st.body, ctx if last else None)
                    do(st.orelse, ctx if last else None)
                elif isinstance(st, (ast.With, ast.AsyncWith)):
                    do(st.body, ctx if last else None)
                elif isinstance(st, ast.Try):
                    do(st.body, None)
                    for h in st.handlers:
                        do(h.body, None)
                    do(st.orelse, None)
                    do(st.finalbody, None)
                elif isinstance(st, ast.ClassDef):
                    do(st.body, None)
                if isinstance(st, ast.While) and isinstance(
                        st.test, ast.Constant) and st.test.value is True \
                        and not st.orelse and st.body and isinstance(
                            st.body[0], ast.If) and not st.body[0].orelse \
                        and len(st.body[0].body) == 1 and isinstance(
                            st.body[0].body[0], ast.Break) and len(
                                st.body) > 1:
                    st.test = negate(st.body[0].test)
                    del st.body[0]
                    n += 1
                    changed = True
                    continue
                if isinstance(st, ast.While) and isinstance(
                        st.test, ast.Constant) and st.test.value is True \
                        and not st.orelse and st.body and isinstance(
                            st.body[0], ast.While) and isinstance(
                                st.body[0].test, ast.Constant) and \
                        st.body[0].test.value is True and not \
                        st.body[0].orelse and _tail_break(
                            st.body[0].body) is not None and sum(
                                1 for x in ast.walk(st.body[0])
                                if isinstance(x, ast.Break)) == 1 and not any(
                                    isinstance(x, (ast.For, ast.AsyncFor,
                                                   ast.While))
                                    for b_ in st.body[0].body
                                    for x in ast.walk(b_)):
                    # a retry loop at the head of a retry loop: its
                    # `continue` (or falling off its end) starts the outer
                    # body over just the same; where it leaves, the rest of
                    # the outer body follows
                    inner = st.body[0]
                    blk = _tail_break(inner.body)
                    blk[-1:] = st.body[1:]
                    st.body[:] = inner.body
                    n += 1
                    changed = True
                    continue
                if last and len(lst) > 1 and _is_bare_leave(st, ctx):
                    del lst[i]
                    n += 1
                    changed = True
                    continue
                if isinstance(st, ast.If):
                    # the rest of the block is the else of a leaving body
                    if not st.orelse and _leaves(st.body) and not last \
                            and not _raises_only(st.body):
                        st.orelse = lst[i + 1:]
                        del lst[i + 1:]
                        n += 1
                        changed = True
                        continue
                    # the branch that leaves comes first
                    if st.orelse and _leaves(st.orelse) and not _leaves(
                            st.body) and not (len(st.orelse) == 1
                                              and isinstance(st.orelse[0],
                                                             ast.If)):
                        st.test = negate(st.test)
                        st.body, st.orelse = st.orelse, st.body
                        n += 1
                        changed = True
                        continue
                    # common tail of both branches
                    if st.orelse and st.body and isinstance(
                            st.body[-1], (ast.Return, ast.Continue,
                                          ast.Raise, ast.Break)) and \
                            _same_stmt(st.body[-1], st.orelse[-1]):
                        tail = st.body[-1]
                        del st.body[-1]
                        del st.orelse[-1]
                        if not st.body:
                            st.body = [ast.copy_location(ast.Pass(), st)]
                        lst.insert(i + 1, tail)
                        n += 1
                        changed = True
                        continue
                    # a branch that only leaves bare-ly at the block's end
                    for br in ("body", "orelse"):
                        blk = getattr(st, br)
                        if last and blk and _is_bare_leave(blk[-1], ctx):
                            del blk[-1]
                            if not blk and br == "body":
                                blk.append(ast.copy_location(ast.Pass(), st))
                            n += 1
                            changed = True
                    # empty branches
                    if st.orelse and len(st.body) == 1 and isinstance(
                            st.body[0], ast.Pass):
                        st.test = negate(st.test)
                        st.body = st.orelse
                        st.orelse = []
                        n += 1
                        changed = True
                        continue
                    if len(st.orelse) == 1 and isinstance(st.orelse[0],
                                                          ast.Pass):
                        st.orelse = []
                        n += 1
                        changed = True
                        continue
                i += 1
    do(tree.body, None)
    return n


def _tail_break(block):
    """the statement list whose last statement is a `break` in tail
    position of `block` (reached through trailing ifs only)"""
    if not block:
        return None
    last = block[-1]
    if isinstance(last, ast.Break):
        return block
    if isinstance(last, ast.If):
        return _tail_break(last.body) or _tail_break(last.orelse)
    return None


def _own_continue(loop):
    """does a `continue` bound to this loop occur in its body"""
    todo = list(loop.body)
    while todo:
        x = todo.pop()
        if isinstance(x, ast.Continue):
            return True
        if isinstance(x, FUNC + (ast.ClassDef, ast.While, ast.For,
                                 ast.AsyncFor, ast.Lambda)):
            continue
        todo.extend(ast.iter_child_nodes(x))
    return False


def _simple_subject(e, truth=False):
    if isinstance(e, (ast.Name, ast.Constant)):
        return True
    if truth and isinstance(e, ast.Call) and isinstance(
            e.func, ast.Name) and e.func.id == "bool" and len(
                e.args) == 1 and not e.keywords and isinstance(
                    e.args[0], ast.Name):
        return True     # the truth of a local: asked again at no cost
    if isinstance(e, ast.Attribute):
        return _simple_subject(e.value)
    return False


class _NoLowering(Exception):
    pass


def _pattern_test(pat, subj, binds):
    """the test a pattern makes on the (simple) subject expression; captures
    are appended to binds as (name, expr)"""
    from copy import deepcopy
    S = lambda: deepcopy(subj)
    if isinstance(pat, ast.MatchValue):
        return ast.Compare(left=S(), ops=[ast.Eq()], comparators=[pat.value])
    if isinstance(pat, ast.MatchSingleton):
        return ast.Compare(left=S(), ops=[ast.Is()],
                           comparators=[ast.Constant(value=pat.value)])
    if isinstance(pat, ast.MatchAs):
        if pat.pattern is None:
            if pat.name is not None:
                binds.append((pat.name, S()))
            return None                      # always matches
        t = _pattern_test(pat.pattern, subj, binds)
        if pat.name is not None:
            binds.append((pat.name, S()))
        return t
    if isinstance(pat, ast.MatchClass) and not pat.patterns:
        t = ast.Call(func=ast.Name("isinstance", ast.Load()),
                     args=[S(), pat.cls], keywords=[])
        tests = [t]
        for attr, sub in zip(pat.kwd_attrs, pat.kwd_patterns):
            field = ast.Attribute(value=S(), attr=attr, ctx=ast.Load())
            st_ = _pattern_test(sub, field, binds)
            if st_ is not None:
                tests.append(st_)
        return tests[0] if len(tests) == 1 else ast.BoolOp(
            op=ast.And(), values=tests)
    if isinstance(pat, ast.MatchOr):
        ts = []
        for p_ in pat.patterns:
            b2 = []
            t = _pattern_test(p_, subj, b2)
            if b2:
                raise _NoLowering()
            if t is None:
                return None
            ts.append(t)
        return ast.BoolOp(op=ast.Or(), values=ts)
    raise _NoLowering()


def lower_match(tree):
    """`match` statements made of value, singleton, class (no sub-patterns),
    capture, wildcard, `as` and `|` patterns - also element-wise against a
    tuple display of the same length - are the if/elif chain they
    abbreviate"""
    n = 0
    counter = [0]

    def lower(st):
        subj = st.subject
        pre = []
        if isinstance(subj, ast.Tuple):
            elems = []
            for e in subj.elts:
                if _simple_subject(e, truth=True):
                    elems.append(e)
                else:
                    counter[0] += 1
                    nm = f"_subject{counter[0]}"
                    pre.append(ast.Assign(
                        targets=[ast.Name(nm, ast.Store())], value=e))
                    elems.append(ast.Name(nm, ast.Load()))
            whole = None
        else:
            elems = None
            if _simple_subject(subj, truth=True):
                whole = subj
            else:
                counter[0] += 1
                nm = f"_subject{counter[0]}"
                pre.append(ast.Assign(targets=[ast.Name(nm, ast.Store())],
                                      value=subj))
                whole = ast.Name(nm, ast.Load())
        branches = []
        for c in st.cases:
            binds = []
            pat = c.pattern
            if elems is not None and isinstance(pat, ast.MatchSequence) \
                    and len(pat.patterns) == len(elems) and not any(
                        isinstance(x, ast.MatchStar) for x in pat.patterns):
                ts = [_pattern_test(p_, e, binds)
                      for p_, e in zip(pat.patterns, elems)]
                ts = [t for t in ts if t is not None]
                test = None if not ts else (
                    ts[0] if len(ts) == 1
                    else ast.BoolOp(op=ast.And(), values=ts))
            elif elems is not None and isinstance(pat, ast.MatchAs) and \
                    pat.pattern is None and pat.name is None:
                test = None
            elif elems is None:
                test = _pattern_test(pat, whole, binds)
            else:
                raise _NoLowering()
            if c.guard is not None:
                if binds:
                    # the guard sees the captures: substitute them
                    from .inline import _ParamSubst
                    g = _ParamSubst({k: v for k, v in binds}).visit(c.guard)
                else:
                    g = c.guard
                test = g if test is None else ast.BoolOp(
                    op=ast.And(), values=[test, g])
            body = [ast.Assign(targets=[ast.Name(k, ast.Store())], value=v)
                    for k, v in binds] + list(c.body)
            branches.append((test, body))
        # build the chain from the back
        chain = []
        for test, body in reversed(branches):
            if test is None:
                chain = body
            else:
                chain = [ast.If(test=test, body=body, orelse=chain)]
        out = pre + (chain or [ast.Pass()])
        for x in out:
            ast.copy_location(x, st)
            ast.fix_missing_locations(x)
        return out

    for owner in list(ast.walk(tree)):
        for fld in ("body", "orelse", "finalbody"):
            lst = getattr(owner, fld, None)
            if not isinstance(lst, list) or not lst or not isinstance(
                    lst[0], ast.stmt):
                continue
            i = 0
            while i < len(lst):
                if isinstance(lst[i], ast.Match):
                    try:
                        rep = lower(lst[i])
                    except _NoLowering:
                        i += 1
                        continue
                    lst[i:i + 1] = rep
                    n += 1
                    continue     # look at the replacement again (nested)
                i += 1
    return n


def _leading_walrus(test):
    """the NamedExpr that is evaluated first, unconditionally, in `test`
    (the test itself, the left side of a comparison, under `not`, or the
    first operand of and/or), or None"""
    if isinstance(test, ast.NamedExpr):
        return test
    if isinstance(test, ast.Compare):
        return _leading_walrus(test.left)
    if isinstance(test, ast.UnaryOp) and isinstance(test.op, ast.Not):
        return _leading_walrus(test.operand)
    if isinstance(test, ast.BoolOp):
        return _leading_walrus(test.values[0])
    if isinstance(test, ast.Call) and not isinstance(
            test.func, ast.NamedExpr) and isinstance(
                test.func, (ast.Name, ast.Attribute)) and test.args and \
            _simple_subject(test.func):
        return _leading_walrus(test.args[0])
    return None


def hoist_walrus(tree):
    """`if (x := E) is not None:` is `x = E; if x is not None:`;
    `while (x := E) in S: B` is `while True: x = E; if x not in S: break;
    B`"""
    n = 0

    class R(ast.NodeTransformer):
        def __init__(self, target):
            self.target = target

        def visit_NamedExpr(self, node):
            if node is self.target:
                return ast.copy_location(
                    ast.Name(node.target.id, ast.Load()), node)
            return self.generic_visit(node)

    for owner in list(ast.walk(tree)):
        for fld in ("body", "orelse", "finalbody"):
            lst = getattr(owner, fld, None)
            if not isinstance(lst, list) or not lst or not isinstance(
                    lst[0], ast.stmt):
                continue
            i = 0
            while i < len(lst):
                st = lst[i]
                if isinstance(st, ast.If):
                    w = _leading_walrus(st.test)
                    if w is not None and isinstance(w.target, ast.Name):
                        bind = ast.Assign(targets=[ast.Name(
                            w.target.id, ast.Store())], value=w.value)
                        ast.copy_location(bind, st)
                        ast.fix_missing_locations(bind)
                        st.test = R(w).visit(st.test)
                        lst.insert(i, bind)
                        n += 1
                        continue
                elif isinstance(st, ast.While) and not st.orelse:
                    w = _leading_walrus(st.test)
                    if w is not None and isinstance(w.target, ast.Name):
                        bind = ast.Assign(targets=[ast.Name(
                            w.target.id, ast.Store())], value=w.value)
                        test = R(w).visit(st.test)
                        brk = ast.If(test=negate(test), body=[ast.Break()],
                                     orelse=[])
                        body = [b for b in st.body
                                if not isinstance(b, ast.Pass)]
                        st.test = ast.Constant(value=True)
                        st.body = [bind, brk] + body
                        for x in (bind, brk):
                            ast.copy_location(x, st)
                            ast.fix_missing_locations(x)
                        n += 1
                        continue
                i += 1
    return n


def uncycle_loops(tree):
    """`for t in cycle((a, b)): if C: break; B` (integer literals, no
    `continue` in B) is `t = a; while not C: B; t ^= a ^ b`"""
    n = 0
    for owner in list(ast.walk(tree)):
        for fld in ("body", "orelse", "finalbody"):
            lst = getattr(owner, fld, None)
            if not isinstance(lst, list) or not lst or not isinstance(
                    lst[0], ast.stmt):
                continue
            for i, st in enumerate(list(lst)):
                if not (isinstance(st, ast.For) and not st.orelse
                        and isinstance(st.target, ast.Name)
                        and isinstance(st.iter, ast.Call)
                        and ast.unparse(st.iter.func).split(".")[-1]
                        == "cycle" and len(st.iter.args) == 1
                        and isinstance(st.iter.args[0], (ast.Tuple, ast.List))
                        and len(st.iter.args[0].elts) == 2
                        and all(isinstance(e, ast.Constant) and type(
                            e.value) is int for e in st.iter.args[0].elts)
                        and st.body and isinstance(st.body[0], ast.If)
                        and not st.body[0].orelse
                        and len(st.body[0].body) == 1
                        and isinstance(st.body[0].body[0], ast.Break)):
                    continue
                rest = st.body[1:]
                if any(isinstance(x, ast.Continue) for b in rest
                       for x in ast.walk(b)):
                    continue
                a, b = (e.value for e in st.iter.args[0].elts)
                init = ast.Assign(targets=[ast.Name(st.target.id,
                                                    ast.Store())],
                                  value=ast.Constant(a))
                flip = ast.AugAssign(target=ast.Name(st.target.id,
                                                     ast.Store()),
                                     op=ast.BitXor(),
                                     value=ast.Constant(a ^ b))
                loop = ast.While(test=negate(st.body[0].test),
                                 body=rest + [flip], orelse=[])
                for x in (init, loop):
                    ast.copy_location(x, st)
                ast.copy_location(flip, st.body[-1])
                loop.end_lineno = getattr(st, "end_lineno", None)
                for x in (init, flip, loop):
                    ast.fix_missing_locations(x)
                j = lst.index(st)
                lst[j:j + 1] = [init, loop]
                n += 1
    return n


def _plain_value(e):
    """names, attribute chains, literals and operators over them (nothing
    is called)"""
    if isinstance(e, (ast.Name, ast.Constant)):
        return True
    if isinstance(e, ast.Attribute):
        return _plain_value(e.value)
    if isinstance(e, ast.BinOp):
        return _plain_value(e.left) and _plain_value(e.right)
    if isinstance(e, ast.UnaryOp):
        return _plain_value(e.operand)
    return False


def inline_with_walrus(tree):
    """`with a > (x := E): y = x` is `with a > E: y = E`: a name bound by
    a walrus in a with item, read only in the first statement of the body
    (nothing can come between), E plain"""
    n = 0
    for func in [f for f in ast.walk(tree) if isinstance(
            f, (ast.FunctionDef, ast.AsyncFunctionDef))]:
        for w in [x for x in ast.walk(func) if isinstance(
                x, (ast.With, ast.AsyncWith))]:
            for it in w.items:
                ws = [x for x in ast.walk(it.context_expr)
                      if isinstance(x, ast.NamedExpr)]
                if len(ws) != 1 or not isinstance(ws[0].target, ast.Name) \
                        or not _plain_value(ws[0].value) or not w.body:
                    continue
                nm = ws[0].target.id
                uses = [x for x in ast.walk(func) if isinstance(x, ast.Name)
                        and x.id == nm and x is not ws[0].target]
                first = {id(x) for x in ast.walk(w.body[0])}
                if not uses or any(id(u) not in first or not isinstance(
                        u.ctx, ast.Load) for u in uses) or isinstance(
                            w.body[0], (ast.With, ast.AsyncWith, ast.For,
                                        ast.While, ast.If, ast.Try)):
                    continue
                val = ws[0].value

                class R(ast.NodeTransformer):
                    def visit_NamedExpr(self, node):
                        if node is ws[0]:
                            return val
                        return self.generic_visit(node)

                    def visit_Name(self, node):
                        if node.id == nm and isinstance(node.ctx, ast.Load):
                            from copy import deepcopy
                            return ast.copy_location(deepcopy(val), node)
                        return node
                it.context_expr = R().visit(it.context_expr)
                w.body[0] = R().visit(w.body[0])
                ast.fix_missing_locations(w)
                n += 1
    return n


def unwrap_genexp_loops(tree):
    """`for T in (E for V in I if C): B` is `for V in I: if C: T = E; B`
    (one generator, lazily consumed, no name of V bound elsewhere in the
    function).  With E a plain name of V the loop variable simply takes
    T's name."""
    n = 0
    for func in [x for x in ast.walk(tree) if isinstance(x, FUNC)]:
        for owner in ast.walk(func):
            for fld in ("body", "orelse", "finalbody"):
                lst = getattr(owner, fld, None)
                if not isinstance(lst, list):
                    continue
                for st in lst:
                    if not (isinstance(st, ast.For) and isinstance(
                            st.iter, ast.GeneratorExp) and len(
                                st.iter.generators) == 1 and not
                            st.iter.generators[0].is_async and not
                            st.orelse):
                        continue
                    g = st.iter.generators[0]
                    vnames = {x.id for x in ast.walk(g.target)
                              if isinstance(x, ast.Name)}
                    tnames = {x.id for x in ast.walk(st.target)
                              if isinstance(x, ast.Name)}
                    inside = {id(x) for x in ast.walk(st.iter)}
                    clash = any(isinstance(x, ast.Name) and x.id in vnames
                                and id(x) not in inside
                                for x in ast.walk(func))
                    if clash or any(isinstance(x, (
                            ast.Await, ast.Yield, ast.YieldFrom,
                            ast.NamedExpr)) for x in ast.walk(st.iter)):
                        continue
                    elt = st.iter.elt
                    body = st.body
                    if isinstance(elt, ast.Name) and elt.id in vnames and \
                            isinstance(st.target, ast.Name):
                        for x in ast.walk(g.target):
                            if isinstance(x, ast.Name) and x.id == elt.id:
                                x.id = st.target.id
                        for c in g.ifs:
                            for x in ast.walk(c):
                                if isinstance(x, ast.Name) and \
                                        x.id == elt.id:
                                    x.id = st.target.id
                    else:
                        bind = ast.Assign(targets=[st.target], value=elt)
                        ast.copy_location(bind, st)
                        body = [bind] + body
                    for c in reversed(g.ifs):
                        body = [ast.copy_location(
                            ast.If(test=c, body=body, orelse=[]), st)]
                    for x in ast.walk(g.target):
                        if hasattr(x, "ctx"):
                            x.ctx = ast.Store()
                    st.target = g.target
                    st.iter = g.iter
                    st.body = body
                    ast.fix_missing_locations(st)
                    n += 1
    return n


def rotate_loops(tree):
    """`P; while c: B; P` (the test's input is fetched before the loop and
    again at the end of every round) is `while True: P; if not c: break;
    B` - the mid-test spelling is the canonical one.  At the very end of a
    function leaving the loop is returning."""
    n = 0
    for owner in [x for x in ast.walk(tree)]:
        for fld in ("body", "orelse", "finalbody"):
            lst = getattr(owner, fld, None)
            if not isinstance(lst, list) or not lst or not isinstance(
                    lst[0], ast.stmt):
                continue
            i = 0
            while i < len(lst):
                st = lst[i]
                if isinstance(st, ast.While) and not st.orelse and not (
                        isinstance(st.test, ast.Constant)) and \
                        not _own_continue(st):
                    k = 0
                    while k < min(i, len(st.body)) and ast.dump(
                            lst[i - k - 1]) == ast.dump(st.body[-k - 1]):
                        k += 1
                    if k:
                        pre = lst[i - k:i]
                        last = isinstance(owner, FUNC) and fld == "body" \
                            and i == len(lst) - 1
                        leave = ast.Return(value=None) if last \
                            else ast.Break()
                        guard = ast.If(test=negate(st.test), body=[leave],
                                       orelse=[])
                        ast.copy_location(guard, st)
                        ast.copy_location(leave, st)
                        loop = ast.While(
                            test=ast.Constant(value=True),
                            body=pre + [guard] + st.body[:len(st.body) - k],
                            orelse=[])
                        ast.copy_location(loop, pre[0])
                        loop.end_lineno = getattr(st, "end_lineno", None)
                        ast.fix_missing_locations(loop)
                        lst[i - k:i + 1] = [loop]
                        i -= k
                        n += 1
                i += 1
    return n


def normalize(tree, modname):
    from . import inline
    ref = reference()
    info = {"noise_removed": strip_noise(tree)}
    info["match_lowered"] = lower_match(tree) + hoist_walrus(tree) + \
        split_divmod(tree) + inline_with_walrus(tree)
    info["reshaped"] = canon_shapes(tree)
    info["rotated"] = uncycle_loops(tree) + rotate_loops(tree) + \
        unwrap_genexp_loops(tree)
    if os.environ.get("SA_CANON_FLOW", "1") == "1":
        info["flow"] = canon_flow(tree)
        canon_shapes(tree)
    if "functions" in ref:
        info["constants_inlined"] = 0
        for _ in range(4):      # constants defined in terms of constants
            k = inline.inline_constants(tree, modname, ref)
            info["constants_inlined"] += k
            if not k:
                break
        info["helpers_inlined"] = inline.inline_helpers(tree, modname, ref)
        k_nt = inline.inline_namedtuples(tree, modname, ref)
        info["helpers_inlined"] += k_nt
        if k_nt:
            inline._drop_identity_assignments(tree)
        # inlining may have produced `if not c: ... else: ...` again
        if info["helpers_inlined"] and os.environ.get(
                "SA_CANON_FLOW", "1") == "1":
            canon_flow(tree)
        canon_shapes(tree)
        strip_noise(tree)
        for _ in range(3):
            if not drop_dead_branches(tree):
                break
    fold_constants(tree)
    info["renamed"] = recover_names(tree, modname, ref)
    if "functions" in ref:
        n = 0
        locs = ref.get("locals", {})
        known_funcs = set(ref["functions"])
        # the inliner of temporaries orders assignments and uses by position
        renumber(tree)
        # literal tuples bound at class level that the reference does not
        # know (a table a duplicated block was folded into)
        ctab = {}
        for cd in [x for x in ast.walk(tree) if isinstance(x, ast.ClassDef)]:
            for st_ in cd.body:
                if isinstance(st_, ast.Assign) and len(
                        st_.targets) == 1 and isinstance(
                            st_.targets[0], ast.Name) and isinstance(
                                st_.value, (ast.Tuple, ast.List)):
                    ctab.setdefault(cd.name, {})[st_.targets[0].id] = \
                        st_.value
        for q, func in function_table(tree, modname).items():
            if q in known_funcs:
                cname = q.split(".")[-2] if q.count(".") >= 2 else None
                n += inline.unroll_literal_loops(
                    func, set(locs.get(q, [])), ctab.get(cname))
                n += inline.coalesce_aliases(func, set(locs.get(q, [])))
                n += inline.inline_temporaries(func, set(locs.get(q, [])))
                n += inline.inline_block_temporaries(
                    func, set(locs.get(q, [])))
                n += inline.inline_temporaries(func, set(locs.get(q, [])))
        info["temporaries_inlined"] = n
        if n:
            inline.operator_calls(tree)
            canon_shapes(tree)
            fold_constants(tree)
            # with the temporaries gone the remaining locals line up
            more = recover_names(tree, modname, ref)
            if more:
                info["renamed"].update(more)
        if info.get("helpers_inlined") or n:
            renumber(tree)
    return info


def _own_exprs(stmt):
    """expression nodes of a statement, nested statements excluded"""
    todo = [c for c in ast.iter_child_nodes(stmt)
            if not isinstance(c, ast.stmt)]
    while todo:
        n = todo.pop()
        yield n
        todo.extend(c for c in ast.iter_child_nodes(n)
                    if not isinstance(c, ast.stmt))


def renumber(tree):
    """source positions order statements for the rules (`a.lineno <
    b.lineno`).  Inlined statements carry the position of the call they
    replaced, so functions whose positions are no longer monotonic get
    synthetic, strictly increasing positions; the real line is kept in
    `_orig_lineno` for the reports."""
    for func in [n for n in ast.walk(tree) if isinstance(n, FUNC)]:
        order = []

        def pre(node):
            for c in ast.iter_child_nodes(node):
                if hasattr(c, "lineno"):
                    order.append(c)
                pre(c)
        pre(func)
        stmts = [x for x in order if isinstance(x, ast.stmt)]
        mono = all((a.lineno, a.col_offset) < (b.lineno, b.col_offset)
                   for a, b in zip(stmts, stmts[1:]))
        if mono:
            # expressions of an inlined helper keep the helper's position
            for st in stmts:
                lo, hi = st.lineno, getattr(st, "end_lineno", None)
                if hi is None:
                    mono = False
                    break
                for sub in _own_exprs(st):
                    if hasattr(sub, "lineno") and not lo <= sub.lineno <= hi:
                        mono = False
                        break
                if not mono:
                    break
        if mono:
            continue
        line = func.lineno
        for i, node in enumerate(order):
            if not hasattr(node, "_orig_lineno"):
                node._orig_lineno = node.lineno
            if isinstance(node, ast.stmt):
                line += 1
            node.lineno = line
            node.end_lineno = line
            node.col_offset = i
            node.end_col_offset = i + 1
