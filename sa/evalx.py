"""E2/E6 - constant folder and finite-domain tabulator.

Folds *pure* expressions (and loop-free, effect-free function bodies made of
local assignments, ``if`` and ``return``) for a given binding of the free
names.  Rules use it to tabulate a selector over a closed, exhaustively
enumerated domain (format letters x width flags, the four combinations of
two booleans, the eight mailbox counter values ...) and compare the table
with a reference.  Anything outside the pure fragment folds to Unknown and
the rule that needed the value reports an analysis error.
"""
import ast
import operator
import struct

from .index import AnalysisError, ClassInfo, FUNC, unparse


STEP_BUDGET = 400000


class Unknown(Exception):
    pass


class Budget(Unknown):
    """the abstract run did not end within its statement budget"""


class _Gen(list):
    """the elements of a generator expression (evaluated eagerly)"""


class Raised(Exception):
    """the folded code raises (for example a failed dict lookup)"""
    def __init__(self, what):
        super().__init__(what)
        self.what = what


class EnumVal:
    def __init__(self, cls, name, value, canon):
        self.cls = cls
        self.name = name
        self.value = value
        self.canon = canon  # canonical member name (aliases share it)

    def __repr__(self):
        return f"{self.cls.name}.{self.name}"

    def __eq__(self, other):
        return isinstance(other, EnumVal) and self.cls is other.cls \
            and self.canon == other.canon

    def __hash__(self):
        return hash((self.cls.qualname, self.canon))


class Flags:
    """model of ebpfcat.ebpf.OpcodeFlags: a *set* of members, value = sum"""
    def __init__(self, members):
        self.members = frozenset(members)

    @property
    def value(self):
        return sum(m.value for m in self.members)

    def __repr__(self):
        return "+".join(sorted(m.canon for m in self.members)) or "0"

    def __eq__(self, other):
        return hasattr(other, "value") and self.value == other.value

    def __hash__(self):
        return hash(self.value)


class ClassRef:
    def __init__(self, ci):
        self.ci = ci

    def __repr__(self):
        return f"<classref {self.ci.qualname}>"


class Obj:
    """an abstract instance: known fields plus its class"""
    def __init__(self, ci, fields=None):
        self.ci = ci
        self.fields = dict(fields or {})

    def __repr__(self):
        return f"<obj {self.ci.name if self.ci else '?'} {self.fields}>"


class Opaque:
    """a value we know nothing about except its identity label"""
    def __init__(self, label):
        self.label = label

    def __repr__(self):
        return f"<{self.label}>"


_BIN = {
    ast.Add: operator.add, ast.Sub: operator.sub, ast.Mult: operator.mul,
    ast.FloorDiv: operator.floordiv, ast.Mod: operator.mod,
    ast.Pow: operator.pow, ast.LShift: operator.lshift,
    ast.RShift: operator.rshift, ast.BitOr: operator.or_,
    ast.BitAnd: operator.and_, ast.BitXor: operator.xor,
    ast.Div: operator.truediv,
}
_CMP = {
    ast.Eq: operator.eq, ast.NotEq: operator.ne, ast.Lt: operator.lt,
    ast.LtE: operator.le, ast.Gt: operator.gt, ast.GtE: operator.ge,
    ast.Is: operator.is_, ast.IsNot: operator.is_not,
    ast.In: lambda a, b: a in b, ast.NotIn: lambda a, b: a not in b,
}
_PURE_BUILTINS = {
    "len": len, "int": int, "bool": bool, "min": min, "max": max,
    "abs": abs, "str": str, "tuple": tuple, "list": list, "set": set,
    "frozenset": frozenset, "sum": sum, "range": range, "bytes": bytes,
    "sorted": sorted, "float": float, "round": round, "divmod": divmod,
    "all": all, "any": any, "dict": dict, "enumerate": enumerate,
    "zip": zip, "reversed": reversed, "ord": ord, "chr": chr,
    "slice": slice, "bytearray": bytearray, "memoryview": memoryview,
}
_TYPES = {"str": str, "int": int, "tuple": tuple, "float": float,
          "bytes": bytes, "bool": bool, "list": list, "dict": dict,
          "bytearray": bytearray, "set": set}
_PURE_METHODS = {
    str: {"islower", "isupper", "startswith", "endswith", "lower", "upper",
          "join", "index", "find", "count", "split", "rsplit", "strip",
          "partition", "encode", "format", "isdigit"},
    bytes: {"startswith", "endswith", "join", "index", "find", "count",
            "decode", "hex"},
    tuple: {"index", "count"},
    list: {"index", "count", "copy", "append", "extend", "insert", "pop",
           "sort", "reverse", "remove", "clear"},
    dict: {"get", "items", "keys", "values", "copy", "setdefault", "update",
           "pop", "clear"},
    bytearray: {"extend", "append", "index", "find", "count", "hex",
                "startswith", "endswith"},
    int: {"bit_length", "to_bytes"},
    frozenset: {"union", "intersection", "difference", "issubset"},
    set: {"union", "intersection", "difference", "issubset", "copy", "add",
          "discard", "remove", "update", "clear"},
}

import math as _math
import re as _re
_MATH = {"math." + n: getattr(_math, n) for n in (
    "floor", "ceil", "trunc", "copysign", "fabs", "isclose")}
# pure functions of the standard library on strings
_MATH.update({"re." + n: getattr(_re, n) for n in (
    "findall", "split", "sub")})

# operator.sub & co. passed around as values: applied through the same
# binop / compare as the infix spelling
_OPFUNC = {"add": ast.Add, "sub": ast.Sub, "mul": ast.Mult,
           "truediv": ast.Div, "floordiv": ast.FloorDiv, "mod": ast.Mod,
           "lshift": ast.LShift, "rshift": ast.RShift, "and_": ast.BitAnd,
           "or_": ast.BitOr, "xor": ast.BitXor, "pow": ast.Pow,
           "lt": ast.Lt, "le": ast.LtE, "gt": ast.Gt, "ge": ast.GtE,
           "eq": ast.Eq, "ne": ast.NotEq, "is_": ast.Is,
           "is_not": ast.IsNot}

import itertools as _it
import operator as _op
class _Chain:
    def __call__(self, *a):
        return list(_it.chain(*a))

    @staticmethod
    def from_iterable(a):
        return list(_it.chain.from_iterable(a))


_MATH["itertools.chain"] = _Chain()
_MATH["itertools.chain.from_iterable"] = lambda a: list(
    _it.chain.from_iterable(a))
_MATH["itertools.accumulate"] = lambda *a, **k: list(_it.accumulate(*a, **k))
_MATH["itertools.repeat"] = lambda x, n: [x] * n
_MATH["itertools.product"] = lambda *a, **k: list(_it.product(*a, **k))
_MATH["itertools.islice"] = lambda *a: list(_it.islice(*a))
_MATH["itertools.zip_longest"] = lambda *a, **k: list(
    _it.zip_longest(*a, **k))
_MATH["operator.itemgetter"] = _op.itemgetter
# weak containers hold what the abstract run holds: plain ones will do
_MATH["weakref.WeakKeyDictionary"] = dict
_MATH["weakref.WeakValueDictionary"] = dict
_MATH["weakref.WeakSet"] = set
_MATH["collections.OrderedDict"] = dict
import collections as _coll
_MATH["collections.namedtuple"] = lambda *a, **k: (
    "pyfunc", _coll.namedtuple(*a, **k))
# pure functions that only store or pass on their arguments: abstract
# values may go through them
_TRANSPARENT = {"enumerate", "zip", "reversed", "list", "tuple", "sorted",
                "min", "max"}

OPCODE_CLASS = "ebpfcat.ebpf.Opcode"


class Evaluator:
    def __init__(self, repo, module, cls=None, funcs=None, max_depth=12):
        self.repo = repo
        self.module = repo.modules[module] if isinstance(module, str) \
            else module
        self.cls = cls
        self.funcs = dict(funcs or {})  # name -> python callable
        self.ctor_hooks = {}            # class qualname -> callable
        self.max_depth = max_depth
        self._depth = 0
        # statements the evaluator (and the evaluators it spawns for
        # callees) may still run: an abstract run must end
        self._budget = [STEP_BUDGET]
        self._enum_cache = {}

    # ------------------------------------------------------------ enums
    def is_enum(self, ci):
        return any((isinstance(c, str) and c.split(".")[-1] in
                    ("Enum", "IntEnum", "Flag", "IntFlag"))
                   for c in self.repo.mro(ci))

    def enum_members(self, ci):
        if ci.qualname in self._enum_cache:
            return self._enum_cache[ci.qualname]
        members = {}
        byvalue = {}
        sub = Evaluator(self.repo, ci.module, ci)
        for name in ci.order:
            if name in ci.attrs and not name.startswith("_"):
                env = {n: m.value for n, m in members.items()}
                try:
                    v = sub.eval(ci.attrs[name], env)
                except Unknown:
                    continue
                if isinstance(v, (list, dict, set)):
                    continue
                try:
                    canon = byvalue.setdefault(v, name)
                except TypeError:
                    canon = name
                members[name] = EnumVal(ci, name, v, canon)
        self._enum_cache[ci.qualname] = members
        return members

    # ------------------------------------------------------- class attrs
    def class_attr(self, ci, name):
        if self.is_enum(ci):
            mem = self.enum_members(ci)
            if name in mem:
                return mem[name]
        owner, node = self.repo.lookup(ci, name)
        if node is None:
            raise Unknown(f"{ci.qualname}.{name}")
        if isinstance(node, FUNC + (ast.Lambda,)):
            if any(unparse(d) == "classmethod" for d in getattr(
                    node, "decorator_list", [])):
                return ("method", ClassRef(ci), node, owner)
            return ("function", owner, node)
        if isinstance(node, ast.ClassDef):
            return ClassRef(owner.inner[name])
        sub = Evaluator(self.repo, owner.module, owner, self.funcs)
        sub.ctor_hooks = self.ctor_hooks
        sub._depth = self._depth + 1
        sub._budget = self._budget
        if sub._depth > self.max_depth:
            raise Unknown("depth")
        env = {}
        # earlier attributes of the class body are visible as plain names
        for n in owner.order:
            if n == name:
                break
        return sub.eval(node, _ClassBodyEnv(sub, owner, name))

    # --------------------------------------------------------------- eval
    def eval(self, node, env=None):
        env = env if env is not None else {}
        m = getattr(self, "_e_" + type(node).__name__, None)
        if m is None:
            raise Unknown(f"unsupported syntax {type(node).__name__}: "
                          f"{unparse(node)}")
        return m(node, env)

    def _e_Constant(self, node, env):
        return node.value

    def _e_Name(self, node, env):
        name = node.id
        try:
            if name in env:
                return env[name]
        except Unknown:
            raise
        if name in self.funcs:
            if isinstance(self.funcs[name], (Obj, tuple)):
                return self.funcs[name]     # a stand-in object / hook
            return ("pyfunc", self.funcs[name])
        r = self.repo.resolve_name(self.module, name)
        if r is not None:
            kind, what = r
            if kind == "class":
                return ClassRef(what)
            if kind == "module":
                return ("module", what)
            if kind == "ext":
                if what in ("struct.calcsize", "struct.pack",
                            "struct.unpack", "struct.unpack_from",
                            "struct.pack_into", "struct.iter_unpack"):
                    return ("pyfunc", getattr(struct, what.split(".")[1]))
                if what == "operator.index":
                    return ("pyfunc", operator.index)
                if what in _MATH:
                    return ("pyfunc", _MATH[what])
                if what == "struct.Struct":
                    return ("pyfunc", struct.Struct)
                if what == "operator.attrgetter":
                    return ("pyfunc", lambda name: ("hook", lambda o, _n=name,
                            _s=self: _s.getattr(o, _n)))
                if what.startswith("operator.") and what[9:] in _OPFUNC:
                    return ("opfunc", _OPFUNC[what[9:]])
                return ("ext", what)
            if kind == "node":
                if isinstance(what, FUNC):
                    return ("function", None, what)
                if isinstance(what, ast.Assign):
                    sub = Evaluator(self.repo, what._module, None, self.funcs)
                    sub._depth = self._depth + 1
                    sub._budget = self._budget
                    if sub._depth > self.max_depth:
                        raise Unknown("depth")
                    if len(what.targets) == 1 and isinstance(
                            what.targets[0], ast.Name):
                        return sub.eval(what.value, {})
                raise Unknown(f"module-level name {name}")
        if name in _PURE_BUILTINS:
            return ("pyfunc", _PURE_BUILTINS[name])
        if name in _TYPES:
            return ("type", _TYPES[name])
        if name == "isinstance":
            return ("isinstance",)
        if name in ("next", "iter"):
            return ("iterfn", name)
        if name in ("map", "filter"):
            return ("mapfn", name)
        if name in ("setattr", "getattr", "hasattr"):
            return ("attrfn", name)
        if name in ("True", "False", "None"):
            return {"True": True, "False": False, "None": None}[name]
        if name == "NotImplemented":
            return self.NOTIMPL
        if name == "super":
            return ("superfn",)
        if name == "type":
            return ("typefn",)
        if name in ("TypeError", "ValueError", "KeyError", "IndexError",
                    "Exception", "AssertionError", "NotImplementedError",
                    "OverflowError", "AttributeError", "OSError",
                    "RuntimeError", "StopIteration", "LookupError",
                    "ArithmeticError", "ZeroDivisionError",
                    "FileNotFoundError", "FileExistsError",
                    "PermissionError", "TimeoutError"):
            return ("exc", name)
        raise Unknown(f"name {name}")

    def _e_Attribute(self, node, env):
        base = self.eval(node.value, env)
        return self.getattr(base, node.attr)

    def getattr(self, base, attr):
        if isinstance(base, tuple) and base[:1] == ("ext",) and \
                f"{base[1]}.{attr}" in _MATH:
            return ("pyfunc", _MATH[f"{base[1]}.{attr}"])
        if isinstance(base, tuple) and base[:1] == ("pyfunc",) and \
                not attr.startswith("_") and callable(
                    getattr(base[1], attr, None)) and isinstance(
                        base[1], _Chain):
            return ("pyfunc", getattr(base[1], attr))
        if isinstance(base, tuple) and base[:1] in (("ext",), ("module",)) \
                and base[1] == "operator" and attr in _OPFUNC:
            return ("opfunc", _OPFUNC[attr])
        if isinstance(base, ClassRef):
            return self.class_attr(base.ci, attr)
        if isinstance(base, EnumVal):
            if attr == "value":
                return base.value
            if attr == "name":
                return base.name
            # extra attributes set in __new__ are not modelled
            raise Unknown(f"enum attribute {attr}")
        if isinstance(base, Flags):
            if attr == "value":
                return base.value
            if attr == "opcodes":
                return base.members
            raise Unknown(attr)
        if isinstance(base, Obj):
            if attr in base.fields:
                return base.fields[attr]
            if attr == "__dict__":
                return base.fields      # the instance dictionary, live
            if base.ci is not None:
                v = self.class_attr(base.ci, attr)
                if isinstance(v, tuple) and v and v[0] == "function":
                    fn = v[2]
                    decos = [unparse(d) for d in getattr(
                        fn, "decorator_list", [])]
                    if "property" in decos:
                        return self.call_function(fn, [base], cls=v[1])
                    if "staticmethod" in decos:
                        return ("function", v[1], fn)
                    return ("method", base, fn, v[1]) + tuple(v[3:4])
                if isinstance(v, tuple) and v and v[0] == "method" and \
                        isinstance(v[1], ClassRef):
                    return v        # a classmethod, bound to the class
                return v
            h = base.fields.get("__getattr__")
            if isinstance(h, tuple) and h and h[0] == "hook" and \
                    not attr.startswith("__"):
                return h[1](attr)       # a stand-in that answers anything
            raise Unknown(f"field {attr}")
        if isinstance(base, tuple) and base and base[0] == "super":
            _, obj, cls = base
            mro = self.repo.mro(obj.ci)
            seen = cls is None
            for c in mro:
                if seen and isinstance(c, ClassInfo):
                    if attr in c.methods:
                        return ("method", obj, c.methods[attr], c)
                    if attr in c.attrs and isinstance(c.attrs[attr],
                                                      ast.Lambda):
                        return ("method", obj, c.attrs[attr], c)
                    if attr in c.attrs:
                        v = self.class_attr(c, attr)
                        if isinstance(v, tuple) and v and v[0] == "function":
                            return ("method", obj, v[2], v[1]) + tuple(v[3:4])
                        return v
                if c is cls:
                    seen = True
            if attr == "__init__":
                return ("pyfunc", lambda *a, **k: None)
            raise Unknown(f"super().{attr}")
        if isinstance(base, tuple) and base and base[0] == "module":
            r = self.repo.resolve_name(base[1], attr)
            if r and r[0] == "class":
                return ClassRef(r[1])
            if r and r[0] == "node" and isinstance(r[1], ast.Assign):
                return Evaluator(self.repo, base[1]).eval(r[1].value, {})
            raise Unknown(f"module attribute {attr}")
        if isinstance(base, tuple) and base and base[0] == "ext":
            if base[1] == "string":
                import string as _string
                v = getattr(_string, attr, None)
                if isinstance(v, str):
                    return v        # string.ascii_letters and the like
            if base[1] == "struct" and attr == "calcsize":
                return ("pyfunc", struct.calcsize)
            if base[1] == "operator" and attr == "index":
                return ("pyfunc", operator.index)
            if base[1] == "struct" and attr == "Struct":
                return ("pyfunc", struct.Struct)
            if base[1] == "struct" and attr in ("pack", "unpack",
                                                "unpack_from", "pack_into"):
                return ("pyfunc", getattr(struct, attr))
            return ("ext", base[1] + "." + attr)
        for t, names in _PURE_METHODS.items():
            if (type(base) is t or t is dict and isinstance(base, dict)) \
                    and attr in names:
                return ("pyfunc", getattr(base, attr))
        if isinstance(base, struct.Struct) and attr in (
                "pack", "unpack", "unpack_from", "pack_into", "size",
                "format"):
            v = getattr(base, attr)
            return ("pyfunc", v) if callable(v) else v
        if isinstance(base, tuple) and attr in getattr(base, "_fields", ()):
            return getattr(base, attr)      # a namedtuple's field
        if isinstance(base, tuple) and hasattr(type(base), "_sa_ci"):
            # a method or property the repository class adds to its
            # namedtuple base
            ci_ = type(base)._sa_ci
            try:
                v = self.class_attr(ci_, attr)
            except Unknown:
                v = None
            if isinstance(v, tuple) and v and v[0] == "function":
                decos = [unparse(d) for d in getattr(
                    v[2], "decorator_list", [])]
                if "property" in decos:
                    return self.call_function(v[2], [base], cls=v[1])
                if "staticmethod" in decos:
                    return v
                return ("method", base, v[2], v[1])
            if v is not None:
                return v
        # immutable builtins: every public method is pure
        if type(base) in (str, bytes, tuple, int, float, frozenset) and \
                not attr.startswith("_") and hasattr(base, attr):
            v = getattr(base, attr)
            return ("pyfunc", v) if callable(v) else v
        raise Unknown(f"attribute {attr} of {base!r}")

    def _e_BinOp(self, node, env):
        a = self.eval(node.left, env)
        b = self.eval(node.right, env)
        return self.binop(type(node.op), a, b)

    def _int_enum(self, x):
        # a member of an IntEnum is an int in arithmetic
        if isinstance(x, EnumVal) and x.cls.qualname != OPCODE_CLASS and \
                isinstance(x.value, int) and any(
                    isinstance(c, str) and c.split(".")[-1] == "IntEnum"
                    for c in self.repo.mro(x.cls)):
            return x.value
        return x

    def binop(self, op, a, b, inplace=False):
        a, b = self._int_enum(a), self._int_enum(b)
        if isinstance(a, (EnumVal, Flags)) or isinstance(b, (EnumVal, Flags)):
            return self._opcode_op(op, a, b)
        if isinstance(a, Obj) or isinstance(b, Obj):
            return self._obj_binop(op, a, b, inplace)
        if any(isinstance(x, (Obj, Opaque, ClassRef, tuple)) and not
               (isinstance(x, tuple) and (not x or not isinstance(x[0], str)
                or x[0] not in ("function", "pyfunc", "method", "ext",
                                "module", "type", "isinstance")))
               for x in (a, b)):
            raise Unknown("operator on abstract value")
        try:
            return _BIN[op](a, b)
        except KeyError:
            raise Unknown(f"operator {op.__name__}")
        except Exception as e:
            raise Raised(f"{type(e).__name__}: {e}")

    _DUNDER = {ast.Add: "add", ast.Sub: "sub", ast.Mult: "mul",
               ast.Div: "truediv", ast.FloorDiv: "floordiv", ast.Mod: "mod",
               ast.LShift: "lshift", ast.RShift: "rshift", ast.BitOr: "or",
               ast.BitAnd: "and", ast.BitXor: "xor", ast.Pow: "pow"}
    _CMPDUNDER = {ast.Eq: ("eq", "eq"), ast.NotEq: ("ne", "ne"),
                  ast.Lt: ("lt", "gt"), ast.LtE: ("le", "ge"),
                  ast.Gt: ("gt", "lt"), ast.GtE: ("ge", "le")}

    def _dunder(self, obj, name):
        if isinstance(obj, Obj) and name in obj.fields and isinstance(
                obj.fields[name], tuple):
            return obj.fields[name]   # a stub object's own hook
        if not isinstance(obj, Obj) or obj.ci is None:
            return None
        owner, node = self.repo.lookup(obj.ci, name)
        if node is None:
            return None
        if isinstance(node, FUNC + (ast.Lambda,)):
            return ("method", obj, node, owner)
        # an alias such as ``__radd__ = __add__``
        try:
            v = self.class_attr(obj.ci, name)
        except Unknown:
            return None
        if isinstance(v, tuple) and v and v[0] == "function":
            return ("method", obj, v[2], v[1]) + tuple(v[3:4])
        return None

    NOTIMPL = ("notimplemented",)

    def _obj_binop(self, op, a, b, inplace=False):
        nm = self._DUNDER.get(op)
        if nm is None:
            raise Unknown("operator on object")
        tries = []
        if inplace:
            tries.append((a, f"__i{nm}__", b))
        tries.append((a, f"__{nm}__", b))
        tries.append((b, f"__r{nm}__", a))
        for obj, name, other in tries:
            m = self._dunder(obj, name)
            if m is None:
                continue
            r = self.call(m, [other])
            if r == self.NOTIMPL:
                continue
            return r
        raise Raised(f"TypeError: unsupported operand types for {nm}")

    def _opcode_op(self, op, a, b):
        def members(x):
            if isinstance(x, EnumVal):
                if x.cls.qualname != OPCODE_CLASS:
                    raise Unknown("arithmetic on foreign enum")
                return {x}
            if isinstance(x, Flags):
                return set(x.members)
            raise Unknown("opcode arithmetic with non-opcode")
        if op is ast.Add:
            return Flags(members(a) | members(b))
        if op is ast.Mult and isinstance(a, EnumVal) \
                and a.cls.qualname == OPCODE_CLASS:
            if isinstance(b, (Obj, Opaque)):
                raise Unknown("opcode * abstract")
            return Flags({a}) if b else Flags(set())
        raise Unknown("unsupported opcode arithmetic")

    def _e_UnaryOp(self, node, env):
        v = self.eval(node.operand, env)
        if isinstance(node.op, ast.Not):
            return not self.truth(v)
        if isinstance(v, Obj):
            nm = {ast.USub: "__neg__", ast.UAdd: "__pos__",
                  ast.Invert: "__invert__"}[type(node.op)]
            m = self._dunder(v, nm)
            if m is None:
                raise Raised(f"TypeError: bad operand for {nm}")
            return self.call(m, [])
        if isinstance(v, (Opaque, EnumVal, Flags)):
            raise Unknown("unary on abstract value")
        if isinstance(node.op, ast.USub):
            return -v
        if isinstance(node.op, ast.UAdd):
            return +v
        if isinstance(node.op, ast.Invert):
            return ~v
        raise Unknown("unary")

    def truth(self, v):
        if isinstance(v, (Opaque,)):
            raise Unknown("truth of opaque")
        if isinstance(v, EnumVal):
            # a plain Enum member is always true; IntEnum / IntFlag members
            # are their integer value
            if any(isinstance(c, str) and c.split(".")[-1] in (
                    "IntEnum", "IntFlag") for c in self.repo.mro(v.cls)):
                return bool(v.value)
            return True
        if isinstance(v, (Obj, ClassRef)):
            return True
        if isinstance(v, Flags):
            return True
        if isinstance(v, tuple) and v and v[0] in (
                "function", "pyfunc", "method", "ext", "module", "type"):
            return True
        return bool(v)

    def _e_BoolOp(self, node, env):
        if isinstance(node.op, ast.And):
            v = True
            for e in node.values:
                v = self.eval(e, env)
                if not self.truth(v):
                    return v
            return v
        v = False
        for e in node.values:
            v = self.eval(e, env)
            if self.truth(v):
                return v
        return v

    def _e_Compare(self, node, env):
        left = self.eval(node.left, env)
        res = True
        for op, right in zip(node.ops, node.comparators):
            r = self.eval(right, env)
            res = self.compare(type(op), left, r)
            if isinstance(res, Obj):
                if len(node.ops) > 1:
                    raise Unknown("chained comparison of objects")
                return res
            if not res:
                return False
            left = r
        return True

    def compare(self, op, a, b):
        if op in (ast.Is, ast.IsNot):
            if isinstance(a, EnumVal) or isinstance(b, EnumVal):
                res = (a == b)
            elif a is None or b is None or isinstance(a, bool) \
                    or isinstance(b, bool):
                res = a is b
            elif isinstance(a, (Obj, Opaque)) or isinstance(b, (Obj, Opaque)):
                res = a is b
            else:
                res = a is b or (type(a) is type(b) and a == b)
            return res if op is ast.Is else not res
        if (isinstance(a, Obj) or isinstance(b, Obj)) and op in \
                self._CMPDUNDER:
            fwd, rev = self._CMPDUNDER[op]
            for obj, name, other in ((a, f"__{fwd}__", b),
                                     (b, f"__{rev}__", a)):
                m = self._dunder(obj, name)
                if m is not None:
                    r = self.call(m, [other])
                    if r != self.NOTIMPL:
                        return r
            if op is ast.Eq:
                return a is b
            if op is ast.NotEq:
                return a is not b
            raise Raised("TypeError: comparison not supported")
        if isinstance(a, Opaque) or isinstance(b, Opaque):
            raise Unknown("comparison with opaque")
        if isinstance(a, Flags) or isinstance(b, Flags):
            if op is ast.Eq:
                return getattr(a, "value", None) == getattr(b, "value", None)
            if op is ast.NotEq:
                return getattr(a, "value", None) != getattr(b, "value", None)
        try:
            return _CMP[op](a, b)
        except TypeError as e:
            raise Raised(f"TypeError: {e}")

    def _e_IfExp(self, node, env):
        if self.truth(self.eval(node.test, env)):
            return self.eval(node.body, env)
        return self.eval(node.orelse, env)

    def _e_Tuple(self, node, env):
        return tuple(self._elts(node.elts, env))

    def _e_List(self, node, env):
        return list(self._elts(node.elts, env))

    def _e_Set(self, node, env):
        return set(self._elts(node.elts, env))

    def _elts(self, elts, env):
        out = []
        for e in elts:
            if isinstance(e, ast.Starred):
                out.extend(self.eval(e.value, env))
            else:
                out.append(self.eval(e, env))
        return out

    def _e_Dict(self, node, env):
        d = {}
        for k, v in zip(node.keys, node.values):
            if k is None:
                d.update(self.eval(v, env))
            else:
                d[self.eval(k, env)] = self.eval(v, env)
        return d

    def _e_Slice(self, node, env):
        lo = self.eval(node.lower, env) if node.lower else None
        hi = self.eval(node.upper, env) if node.upper else None
        st = self.eval(node.step, env) if node.step else None
        return slice(lo, hi, st)

    def _e_Subscript(self, node, env):
        base = self.eval(node.value, env)
        idx = self.eval(node.slice, env)
        if isinstance(base, Obj):
            m = self._dunder(base, "__getitem__")
            if m is None:
                raise Unknown("subscript of an object without __getitem__")
            return self.call(m, [idx])
        if isinstance(base, (Opaque, ClassRef, EnumVal, Flags)):
            raise Unknown("subscript of abstract value")
        try:
            return base[idx]
        except (KeyError, IndexError, TypeError) as e:
            raise Raised(f"{type(e).__name__}: {e}")

    def _e_JoinedStr(self, node, env):
        out = []
        for v in node.values:
            if isinstance(v, ast.Constant):
                out.append(v.value)
            else:
                val = self.eval(v.value, env)
                if isinstance(val, (Obj, Opaque)):
                    raise Unknown("format of abstract")
                spec = ""
                if v.format_spec is not None:
                    spec = self.eval(v.format_spec, env)
                out.append(format(val, spec))
        return "".join(out)

    def _e_Await(self, node, env):
        # awaiting a stand-in: the rule's hook returned the awaited result
        v = self.eval(node.value, env)
        if isinstance(v, tuple) and v and isinstance(v[0], str) and v[0] in (
                "function", "method", "pyfunc", "ext"):
            raise Unknown("await of a function value")
        if isinstance(v, Obj) and "__await_result__" in v.fields:
            return v.fields["__await_result__"]     # a stand-in future
        return v

    def _e_Yield(self, node, env):
        # a generator body run straight through (a context manager: enter
        # and exit in sequence); the rule sees what is yielded
        h = self.funcs.get("__yield__")
        if h is None:
            raise Unknown("yield")
        return h(self.eval(node.value, env) if node.value is not None
                 else None)

    def _e_YieldFrom(self, node, env):
        h = self.funcs.get("__yield__")
        if h is None:
            raise Unknown("yield from")
        for x in self.eval(node.value, env):
            h(x)
        return None

    def _e_NamedExpr(self, node, env):
        v = self.eval(node.value, env)
        if isinstance(node.target, ast.Name) and isinstance(env, dict):
            env[node.target.id] = v
            return v
        raise Unknown("walrus target")

    def _e_Lambda(self, node, env):
        return ("function", self.cls, node, dict(env) if isinstance(env, dict)
                else env)

    def _e_Starred(self, node, env):
        raise Unknown("starred")

    def _e_ListComp(self, node, env):
        return list(self._comp(node, env))

    def _e_GeneratorExp(self, node, env):
        return _Gen(self._comp(node, env))

    def _e_SetComp(self, node, env):
        return set(self._comp(node, env))

    def _e_DictComp(self, node, env):
        pair = ast.Tuple(elts=[node.key, node.value], ctx=ast.Load())
        fake = ast.ListComp(elt=pair, generators=node.generators)
        return dict(self._comp(fake, env))

    def _comp(self, node, env, i=0, elt=None):
        gens = node.generators
        env = dict(env) if isinstance(env, dict) else env

        def rec(i, env):
            if i == len(gens):
                yield self.eval(node.elt, env)
                return
            g = gens[i]
            it = self.eval(g.iter, env)
            if isinstance(it, (Obj, Opaque)):
                raise Unknown("iteration over abstract")
            for x in it:
                e2 = dict(env)
                self.bind(g.target, x, e2)
                if all(self.truth(self.eval(c, e2)) for c in g.ifs):
                    yield from rec(i + 1, e2)
        yield from rec(0, env)

    def bind(self, target, value, env):
        if isinstance(target, ast.Name):
            env[target.id] = value
        elif isinstance(target, (ast.Tuple, ast.List)):
            if isinstance(value, (Obj, Opaque, ClassRef, EnumVal)):
                raise Unknown("unpacking an abstract value")
            try:
                vals = list(value)
            except TypeError as e:
                raise Raised(f"TypeError: {e}")
            star = [i for i, t in enumerate(target.elts)
                    if isinstance(t, ast.Starred)]
            if star:
                i = star[0]
                after = len(target.elts) - i - 1
                if len(vals) < len(target.elts) - 1:
                    raise Raised("ValueError: unpack")
                for t, v in zip(target.elts[:i], vals[:i]):
                    self.bind(t, v, env)
                self.bind(target.elts[i].value,
                          vals[i:len(vals) - after], env)
                for t, v in zip(target.elts[i + 1:],
                                vals[len(vals) - after:]):
                    self.bind(t, v, env)
                return
            if len(vals) != len(target.elts):
                raise Raised("ValueError: unpack")
            for t, v in zip(target.elts, vals):
                self.bind(t, v, env)
        elif isinstance(target, (ast.Attribute, ast.Subscript)):
            self.assign(target, value, env)
        else:
            raise Unknown("bind target")

    def _e_Call(self, node, env):
        f = self.eval(node.func, env)
        args = self._elts(node.args, env)
        kwargs = {}
        for k in node.keywords:
            if k.arg is None:
                d = self.eval(k.value, env)
                if not isinstance(d, dict) or not all(
                        isinstance(x, str) for x in d):
                    raise Unknown("**kwargs")
                kwargs.update(d)
                continue
            kwargs[k.arg] = self.eval(k.value, env)
        return self.call(f, args, kwargs)

    def _namedtuple_base(self, ci):
        """the Python class for a repository class that derives from a
        `namedtuple(...)` call (methods are looked up in the repository
        class), or None"""
        c = getattr(ci, "_sa_ntclass", False)
        if c is not False:
            return c
        c = None
        for b in getattr(ci.node, "bases", []):
            if isinstance(b, ast.Call) and unparse(b.func).split(".")[-1] \
                    == "namedtuple":
                try:
                    nt = Evaluator(self.repo, ci.module, None,
                                   self.funcs).eval(b, {})
                except (Unknown, Raised):
                    break
                if isinstance(nt, tuple) and len(nt) == 2 and nt[0] == \
                        "pyfunc" and isinstance(nt[1], type):
                    c = type(ci.name, (nt[1],), {"_sa_ci": ci,
                                                 "__slots__": ()})
                break
        try:
            ci._sa_ntclass = c
        except AttributeError:
            pass
        return c

    def construct(self, ci, args, kwargs):
        if self.repo.lookup(ci, "__init__")[1] is None and \
                self.repo.lookup(ci, "__new__")[1] is None:
            ntc = self._namedtuple_base(ci)
            if ntc is not None:
                try:
                    return ntc(*args, **kwargs)
                except TypeError as e:
                    raise Raised(f"TypeError: {e}")
        obj = Obj(ci)
        owner, init = self.repo.lookup(ci, "__init__")
        if init is not None and isinstance(init, FUNC):
            self.call_function(init, [obj] + list(args), kwargs, cls=owner)
        elif args or kwargs:
            if not any(isinstance(c, str) for c in self.repo.mro(ci)):
                raise Raised("TypeError: object() takes no arguments")
        return obj

    def call(self, f, args, kwargs=None):
        kwargs = kwargs or {}
        if isinstance(f, ClassRef) and len(args) == 1 and not kwargs and \
                f.ci.qualname not in self.ctor_hooks and self.is_enum(f.ci) \
                and not any("Flag" in str(c) for c in self.repo.mro(f.ci)):
            # Enum(value): the member with that value
            v = args[0]
            if isinstance(v, EnumVal) and v.cls is f.ci:
                return v
            for m in self.enum_members(f.ci).values():
                if not isinstance(v, (Obj, Opaque)) and m.value == v:
                    return m
            raise Raised(f"ValueError: {v!r} is not a valid {f.ci.name}")
        if isinstance(f, ClassRef):
            if f.ci.qualname in self.ctor_hooks:
                return self.ctor_hooks[f.ci.qualname](self, f.ci, args,
                                                      kwargs)
            return self.construct(f.ci, args, kwargs)
        if isinstance(f, Obj):
            # a callable object: a stand-in with a `__call__` hook, or an
            # instance of a repository class that defines __call__
            h = f.fields.get("__call__")
            if h is None and f.ci is not None:
                h = self._dunder(f, "__call__")
            if h is not None:
                return self.call(h, args, kwargs)
        if isinstance(f, tuple) and f:
            if f[0] == "hook":
                # a rule's recording stub: receives abstract values as is
                try:
                    return f[1](*args, **kwargs)
                except TypeError as e:
                    if "argument" in str(e) and f[1].__name__ in str(e):
                        # the source calls the stand-in in a way the rule
                        # did not foresee
                        raise Unknown(f"stand-in called differently: {e}")
                    raise
            if f[0] == "opfunc" and len(args) == 2 and not kwargs:
                if issubclass(f[1], ast.cmpop):
                    return self.compare(f[1], args[0], args[1])
                return self.binop(f[1], args[0], args[1])
            if f[0] == "pyfunc":
                if f[1] is abs and len(args) == 1 and isinstance(args[0],
                                                                 Obj):
                    m = self._dunder(args[0], "__abs__")
                    if m is None:
                        raise Raised("TypeError: bad operand for abs()")
                    return self.call(m, [])
                if f[1] is len and len(args) == 1 and isinstance(
                        args[0], Obj):
                    m = self._dunder(args[0], "__len__")
                    if m is None:
                        raise Raised("TypeError: object has no len()")
                    return self.call(m, [])
                if f[1] is operator.index and len(args) == 1 and isinstance(
                        args[0], Obj) and args[0].ci is not None:
                    m = self._dunder(args[0], "__index__")
                    if m is None:
                        raise Raised("TypeError: object cannot be "
                                     "interpreted as an integer")
                    return self.call(m, [])
                if f[1] in (list, tuple, len, sorted, reversed, enumerate,
                            set, frozenset, iter):
                    # iterating an Enum class: its members as declared
                    args = [list(self.enum_members(a.ci).values())
                            if isinstance(a, ClassRef) and self.is_enum(a.ci)
                            else a for a in args]
                container = isinstance(getattr(f[1], "__self__", None),
                                       (list, dict, set))
                if not container and any(
                        isinstance(a, (Obj, Opaque, ClassRef))
                        for a in list(args) + list(kwargs.values())):
                    raise Unknown("pure builtin on abstract value")
                conv = [a.value if isinstance(a, EnumVal) and False else a
                        for a in args]
                kwargs = {k: (self._as_callable(v) if isinstance(v, tuple)
                              and v and v[0] in ("function", "method",
                                                 "hook", "opfunc")
                              else v[1] if isinstance(v, tuple) and len(
                                  v) == 2 and v[0] == "pyfunc"
                              else v) for k, v in kwargs.items()}
                try:
                    return f[1](*conv, **kwargs)
                except (Unknown, Raised):
                    raise
                except Exception as e:
                    raise Raised(f"{type(e).__name__}: {e}")
            if f[0] == "type":
                try:
                    return f[1](*args, **kwargs)
                except Exception as e:
                    raise Raised(f"{type(e).__name__}: {e}")
            if f[0] == "isinstance":
                return self._isinstance(args[0], args[1])
            if f[0] == "mapfn":
                if len(args) < 2 or any(isinstance(a, (Obj, Opaque))
                                        for a in args[1:]):
                    raise Unknown(f"{f[1]}() over an abstract value")
                fn = args[0]
                if f[1] == "map":
                    return _Gen(self.call(fn, list(xs))
                                for xs in zip(*args[1:]))
                return _Gen(x for x in args[1] if (
                    self.truth(x) if fn is None
                    else self.truth(self.call(fn, [x]))))
            if f[0] == "iterfn":
                if not args or isinstance(args[0], (Obj, Opaque, ClassRef,
                                                    EnumVal)):
                    raise Unknown(f"{f[1]}() of an abstract value")
                if f[1] == "iter" and len(args) == 1:
                    try:
                        return iter(args[0])
                    except TypeError as e:
                        raise Raised(f"TypeError: {e}")
                if f[1] == "next" and len(args) in (1, 2):
                    it = args[0]
                    if isinstance(it, _Gen):
                        # a generator expression, evaluated eagerly:
                        # next() takes its first element off
                        if it:
                            return it.pop(0)
                    elif hasattr(it, "__next__"):
                        try:
                            return next(it)
                        except StopIteration:
                            pass
                    else:
                        raise Raised("TypeError: not an iterator")
                    if len(args) == 2:
                        return args[1]
                    raise Raised("StopIteration")
                raise Unknown(f"{f[1]} arity")
            if f[0] == "attrfn":
                if len(args) >= 2 and isinstance(args[1], str) and (
                        args[0] is None or type(args[0]) in (
                            int, float, str, bytes, bool, tuple)) and \
                        f[1] in ("getattr", "hasattr"):
                    # a plain Python value has the attributes Python gives it
                    if f[1] == "hasattr":
                        return hasattr(args[0], args[1])
                    if hasattr(args[0], args[1]):
                        raise Unknown(f"getattr of builtin {args[1]}")
                    if len(args) == 3:
                        return args[2]
                    raise Raised(f"AttributeError: {args[1]}")
                if not args or not isinstance(args[0], Obj) or len(
                        args) < 2 or not isinstance(args[1], str):
                    raise Unknown(f"{f[1]} on a non-object")
                if f[1] == "setattr" and len(args) == 3:
                    args[0].fields[args[1]] = args[2]
                    return None
                if f[1] == "getattr":
                    try:
                        return self.getattr(args[0], args[1])
                    except (Unknown, Raised):
                        if len(args) == 3:
                            return args[2]
                        raise
                if f[1] == "hasattr" and len(args) == 2:
                    try:
                        self.getattr(args[0], args[1])
                        return True
                    except Raised:
                        return False
                raise Unknown(f"{f[1]} arity")
            if f[0] == "superfn":
                slf = getattr(self, "_self", None)
                if slf is None:
                    raise Unknown("super() outside a method")
                return ("super", slf, self.cls)
            if f[0] == "typefn" and len(args) == 1:
                if isinstance(args[0], Obj) and args[0].ci is not None:
                    return ClassRef(args[0].ci)
                raise Unknown("type() of non-object")
            if f[0] == "exc":
                return ("excinst", f[1], args)
            if f[0] == "function":
                return self.call_function(f[2], args, kwargs,
                                          cls=f[1], closure=f[3] if len(f) > 3
                                          else None)
            if f[0] == "method":
                return self.call_function(f[2], [f[1]] + list(args), kwargs,
                                          cls=f[3], closure=f[4] if len(f) > 4 else None)
        raise Unknown(f"call of {f!r}")

    def _as_callable(self, f):
        """an evaluator-level function as a Python callable (the `key=` of
        a sort)"""
        return lambda *a, **k: self.call(f, list(a), k)

    def _isinstance(self, v, t):
        if isinstance(t, tuple) and len(t) == 2 and t[0] == "pyfunc" \
                and isinstance(t[1], type):
            t = ("type", t[1])
        if isinstance(t, tuple) and t and t[0] == "type":
            if isinstance(v, (Obj, EnumVal, Flags, ClassRef)):
                return False
            if isinstance(v, Opaque):
                raise Unknown("isinstance of opaque")
            if t[1] is int and isinstance(v, bool):
                return True
            return isinstance(v, t[1])
        if isinstance(t, ClassRef):
            if isinstance(v, Obj) and v.ci is not None:
                return self.repo.is_subclass(v.ci, t.ci.qualname)
            if isinstance(v, EnumVal):
                return self.repo.is_subclass(v.cls, t.ci.qualname)
            if isinstance(v, Opaque):
                raise Unknown("isinstance of opaque")
            return False
        if isinstance(t, tuple):
            return any(self._isinstance(v, x) for x in t)
        raise Unknown("isinstance type")

    # ------------------------------------------- loop-free function bodies
    def call_function(self, fn, args, kwargs=None, cls=None, closure=None):
        self._depth += 1
        try:
            if self._depth > self.max_depth:
                raise Unknown("call depth")
            sub = Evaluator(self.repo, fn._module, cls or
                            self.repo.enclosing_class(fn), self.funcs)
            sub.ctor_hooks = self.ctor_hooks
            sub._depth = self._depth
            sub._budget = self._budget
            sub._self = args[0] if args and isinstance(args[0], Obj) \
                else None
            env = dict(closure) if isinstance(closure, dict) else {}
            a = fn.args
            params = [p.arg for p in a.posonlyargs + a.args]
            defaults = [None] * (len(params) - len(a.defaults)) + list(
                a.defaults)
            kwargs = dict(kwargs or {})
            for i, p in enumerate(params):
                if i < len(args):
                    env[p] = args[i]
                elif p in kwargs:
                    env[p] = kwargs.pop(p)
                elif defaults[i] is not None:
                    env[p] = sub.eval(defaults[i], self._defenv(sub))
                else:
                    raise Raised(f"TypeError: missing argument {p}")
            if a.vararg:
                env[a.vararg.arg] = tuple(args[len(params):])
            elif len(args) > len(params):
                raise Raised("TypeError: too many arguments")
            for p, d in zip(a.kwonlyargs, a.kw_defaults):
                if p.arg in kwargs:
                    env[p.arg] = kwargs.pop(p.arg)
                elif d is not None:
                    env[p.arg] = sub.eval(d, self._defenv(sub))
            if a.kwarg:
                env[a.kwarg.arg] = dict(kwargs)
                kwargs = {}
            if kwargs:
                raise Raised("TypeError: unexpected keyword")
            if isinstance(fn, ast.Lambda):
                return sub.eval(fn.body, env)
            if _is_generator(fn) and not (
                    "__yield__" in self.funcs and _is_ctxmanager(fn)):
                # a generator is run to its end, what it yields collected
                # (its consumer then iterates over a list: the interleaving
                # of producer and consumer is not modelled)
                out = []
                sub.funcs = dict(sub.funcs)
                sub.funcs["__yield__"] = out.append
                sub.run_block(fn.body, env)
                return out
            # `nonlocal x`: what the body binds is written back to the
            # enclosing function's variables
            nl = [n for st in fn.body if isinstance(st, ast.Nonlocal)
                  for n in st.names] if isinstance(closure, dict) else []
            try:
                r = sub.run_block(fn.body, env)
            finally:
                for n in nl:
                    if n in env:
                        closure[n] = env[n]
            return r[1] if r is not None and r[0] == "return" else None
        finally:
            self._depth -= 1

    @staticmethod
    def _defenv(sub):
        # default values of a method were evaluated in its class body
        if sub.cls is not None and hasattr(sub.cls, "attrs"):
            return _ClassBodyEnv(sub, sub.cls, None)
        return {}

    def run_block(self, stmts, env):
        """returns None (fell through) or ("return", value)"""
        for s in stmts:
            r = self.run_stmt(s, env)
            if r is not None:
                return r
        return None

    def run_stmt(self, s, env):
        self._budget[0] -= 1
        if self._budget[0] < 0:
            raise Budget(f"no end within {STEP_BUDGET} statements")
        if isinstance(s, ast.Expr):
            if isinstance(s.value, ast.Constant):
                return None
            if isinstance(s.value, (ast.Call, ast.Yield)) or (
                    isinstance(s.value, ast.Await) and isinstance(
                        s.value.value, ast.Call)):
                self.eval(s.value, env)
                return None
            raise Unknown(f"expression statement {unparse(s)}")
        if isinstance(s, (ast.Pass, ast.Nonlocal)):
            return None
        if isinstance(s, ast.Return):
            return ("return", self.eval(s.value, env) if s.value else None)
        if isinstance(s, ast.Assign):
            v = self.eval(s.value, env)
            for t in s.targets:
                self.assign(t, v, env)
            return None
        if isinstance(s, ast.AugAssign):
            cur = self.eval(_load(s.target), env)
            v = self.binop(type(s.op), cur, self.eval(s.value, env),
                           inplace=True)
            self.assign(s.target, v, env)
            return None
        if isinstance(s, ast.If):
            if self.truth(self.eval(s.test, env)):
                return self.run_block(s.body, env)
            return self.run_block(s.orelse, env)
        if isinstance(s, ast.Assert):
            if not self.truth(self.eval(s.test, env)):
                raise Raised("AssertionError")
            return None
        if isinstance(s, ast.Break):
            return ("break",)
        if isinstance(s, ast.Continue):
            return ("continue",)
        if isinstance(s, (ast.For, ast.AsyncFor)):
            it = self.eval(s.iter, env)
            if isinstance(it, ClassRef) and self.is_enum(it.ci):
                it = list(self.enum_members(it.ci).values())
            if isinstance(it, (Obj, Opaque, ClassRef)) or (
                    isinstance(it, tuple) and it and isinstance(it[0], str)
                    and it[0] in ("function", "pyfunc", "method", "ext")):
                raise Unknown("iteration over an abstract value")
            try:
                items = list(it)
            except TypeError as e:
                raise Raised(f"TypeError: {e}")
            for x in items:
                self.bind(s.target, x, env)
                r = self.run_block(s.body, env)
                if r is not None:
                    if r[0] == "break":
                        break
                    if r[0] == "continue":
                        continue
                    return r
            else:
                return self.run_block(s.orelse, env)
            return None
        if isinstance(s, ast.While):
            for _ in range(100000):
                if not self.truth(self.eval(s.test, env)):
                    return self.run_block(s.orelse, env)
                r = self.run_block(s.body, env)
                if r is not None:
                    if r[0] == "break":
                        return None
                    if r[0] == "continue":
                        continue
                    return r
            raise Unknown("loop does not terminate in 100000 rounds")
        if isinstance(s, ast.Raise):
            raise Raised(unparse(s.exc) if s.exc else "re-raise")
        if isinstance(s, FUNC):
            env[s.name] = ("function", self.cls, s, env)
            return None
        if isinstance(s, ast.Try) and s.finalbody:
            inner = ast.Try(body=s.body, handlers=s.handlers,
                            orelse=s.orelse, finalbody=[])
            ast.copy_location(inner, s)
            pending = None
            try:
                r = self.run_stmt(inner, env) if s.handlers else \
                    self.run_block(s.body, env)
            except Raised as e:
                pending = e
                r = None
            fr = self.run_block(s.finalbody, env)
            if fr is not None:
                return fr           # a return/break in finally wins
            if pending is not None:
                raise pending
            return r
        if isinstance(s, ast.Try) and not s.finalbody:
            try:
                r = self.run_block(s.body, env)
            except Raised as e:
                for h in s.handlers:
                    names = [] if h.type is None else [
                        unparse(x) for x in (h.type.elts if isinstance(
                            h.type, ast.Tuple) else [h.type])]
                    if h.type is None or any(
                            e.what.startswith(n.split(".")[-1])
                            or n in ("Exception", "BaseException")
                            for n in names):
                        if h.name:
                            env[h.name] = Opaque("exception " + e.what)
                        return self.run_block(h.body, env)
                raise
            if r is not None:
                return r
            return self.run_block(s.orelse, env)
        if isinstance(s, (ast.With, ast.AsyncWith)):
            # context managers of repository classes: __enter__, the body,
            # __exit__ on every way out (a true result would swallow the
            # exception - not modelled)
            mgrs = []
            for it in s.items:
                m = self.eval(it.context_expr, env)
                if not (isinstance(m, Obj) and self._dunder(m, "__enter__")
                        and self._dunder(m, "__exit__")):
                    raise Unknown("with over an abstract value")
                v = self.call(self.getattr(m, "__enter__"), [])
                if it.optional_vars is not None:
                    self.bind(it.optional_vars, v, env)
                mgrs.append(m)
            pending = None
            try:
                r = self.run_block(s.body, env)
            except Raised as e:
                pending, r = e, None
            for m in reversed(mgrs):
                self.call(self.getattr(m, "__exit__"), [None, None, None])
            if pending is not None:
                raise pending
            return r
        if isinstance(s, ast.Match):
            subj = self.eval(s.subject, env)
            for c in s.cases:
                e2 = dict(env)
                if self._match(c.pattern, subj, e2) and (
                        c.guard is None
                        or self.truth(self.eval(c.guard, e2))):
                    env.update(e2)
                    return self.run_block(c.body, env)
            return None
        raise Unknown(f"statement {type(s).__name__}")

    def _match(self, pat, v, env):
        if isinstance(pat, ast.MatchValue):
            return self.truth(self.compare(ast.Eq, v,
                                           self.eval(pat.value, env)))
        if isinstance(pat, ast.MatchSingleton):
            return v is pat.value
        if isinstance(pat, ast.MatchAs):
            if pat.pattern is not None and not self._match(pat.pattern, v,
                                                           env):
                return False
            if pat.name is not None:
                env[pat.name] = v
            return True
        if isinstance(pat, ast.MatchOr):
            return any(self._match(p_, v, env) for p_ in pat.patterns)
        if isinstance(pat, ast.MatchClass) and not pat.patterns:
            if not self._isinstance(v, self.eval(pat.cls, env)):
                return False
            for attr, sub in zip(pat.kwd_attrs, pat.kwd_patterns):
                try:
                    fv = self.getattr(v, attr)
                except Raised:
                    return False
                if not self._match(sub, fv, env):
                    return False
            return True
        if isinstance(pat, ast.MatchSequence):
            if isinstance(v, (Obj, Opaque, ClassRef, EnumVal)):
                raise Unknown("sequence pattern on an abstract value")
            if not isinstance(v, (tuple, list)) :
                return False
            stars = [i for i, p_ in enumerate(pat.patterns)
                     if isinstance(p_, ast.MatchStar)]
            if not stars:
                return len(v) == len(pat.patterns) and all(
                    self._match(p_, x, env)
                    for p_, x in zip(pat.patterns, v))
            i = stars[0]
            after = len(pat.patterns) - i - 1
            if len(v) < len(pat.patterns) - 1:
                return False
            ok = all(self._match(p_, x, env)
                     for p_, x in zip(pat.patterns[:i], v[:i])) and all(
                self._match(p_, x, env) for p_, x in zip(
                    pat.patterns[i + 1:], v[len(v) - after:]))
            if ok and pat.patterns[i].name:
                env[pat.patterns[i].name] = list(v[i:len(v) - after])
            return ok
        raise Unknown(f"pattern {type(pat).__name__}")

    def assign(self, t, v, env):
        if isinstance(t, ast.Name):
            env[t.id] = v
        elif isinstance(t, (ast.Tuple, ast.List)):
            self.bind(t, v, env)
        elif isinstance(t, ast.Attribute):
            base = self.eval(t.value, env)
            if isinstance(base, Obj):
                base.fields[t.attr] = v
            else:
                raise Unknown("attribute store on non-object")
        elif isinstance(t, ast.Subscript):
            base = self.eval(t.value, env)
            idx = self.eval(t.slice, env)
            if isinstance(base, Obj):
                m = self._dunder(base, "__setitem__")
                if m is None:
                    raise Unknown("item store on an object without "
                                  "__setitem__")
                self.call(m, [idx, v])
            elif isinstance(base, (list, dict, bytearray)):
                try:
                    base[idx] = v
                except (KeyError, IndexError, TypeError, ValueError) as e:
                    raise Raised(f"{type(e).__name__}: {e}")
            elif getattr(base, "_sa_recorder", False):
                base[idx] = v       # a rule's recording stand-in
            else:
                raise Unknown("item store")
        else:
            raise Unknown("assignment target")


def _is_generator(fn):
    r = getattr(fn, "_sa_gen", None)
    if r is None:
        r = False
        stack = list(fn.body)
        while stack:
            n = stack.pop()
            if isinstance(n, FUNC + (ast.Lambda, ast.ClassDef)):
                continue
            if isinstance(n, (ast.Yield, ast.YieldFrom)):
                r = True
                break
            for c in ast.iter_child_nodes(n):
                if not isinstance(c, FUNC + (ast.Lambda, ast.ClassDef)):
                    stack.append(c)
        try:
            fn._sa_gen = r
        except AttributeError:
            pass
    return r


def _is_ctxmanager(fn):
    return any(unparse(d).split(".")[-1] in ("contextmanager",
                                             "asynccontextmanager")
               for d in getattr(fn, "decorator_list", []))


def _load(t):
    from .match import clone
    t2 = clone(t)
    for n in ast.walk(t2):
        if hasattr(n, "ctx"):
            n.ctx = ast.Load()
    return t2


class _ClassBodyEnv(dict):
    """names visible in a class body: attributes defined earlier"""
    def __init__(self, ev, ci, upto):
        super().__init__()
        self.ev, self.ci, self.upto = ev, ci, upto

    def __contains__(self, name):
        if dict.__contains__(self, name):
            return True
        if name == self.upto:
            return False
        return name in self.ci.attrs or name in self.ci.inner \
            or name in self.ci.methods

    def __getitem__(self, name):
        if dict.__contains__(self, name):
            return dict.__getitem__(self, name)
        if name in self.ci.inner:
            return ClassRef(self.ci.inner[name])
        if name in self.ci.methods and name not in self.ci.attrs:
            return ("function", self.ci, self.ci.methods[name])
        return self.ev.class_attr(self.ci, name)


def fold(repo, module, node, env=None, cls=None):
    """fold or raise AnalysisError"""
    try:
        return Evaluator(repo, module, cls).eval(node, env or {})
    except Unknown as e:
        raise AnalysisError(f"cannot fold {unparse(node)}: {e}")
