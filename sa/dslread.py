"""E7 - reader for methods that *are* eBPF programs written in the DSL.

``with <cond> [as Else]:`` is the DSL's if, ``with Else:`` its complement,
several items in one ``with`` nest left to right.  The DSL emits strictly in
Python evaluation order, so the ordered list of guarded events this module
extracts is the emission order.  Python-level ``for`` loops over
generation-time collections are kept symbolic (their body appears once,
marked with the loop)."""
import ast

from .index import unparse


class Event:
    def __init__(self, kind, node, guards, loops, **detail):
        self.kind = kind        # exit | store | iadd | helper | call | regdef
        self.node = node
        self.guards = list(guards)   # [(expr, polarity, with-node)]
        self.loops = list(loops)
        self.__dict__.update(detail)

    def guard_text(self):
        return [("" if p else "not ") + unparse(e) for e, p, _ in self.guards]

    def __repr__(self):
        return f"<{self.kind} {unparse(self.node)[:40]} if " \
               f"{self.guard_text()}>"


def events(func):
    out = []
    else_of = {}    # Else name -> (expr, with-node) it complements

    def walk(stmts, guards, loops):
        for s in stmts:
            if isinstance(s, ast.With):
                g = list(guards)
                for it in s.items:
                    ce = it.context_expr
                    if isinstance(ce, ast.Name) and ce.id in else_of:
                        e, w, outer = else_of[ce.id]
                        g = list(outer) + [(e, False, w)]
                    else:
                        if it.optional_vars is not None and isinstance(
                                it.optional_vars, ast.Name):
                            else_of[it.optional_vars.id] = (ce, s, list(g))
                        elif isinstance(it.optional_vars, ast.Tuple):
                            # `as (dst, _)`: a value, not an Else handler
                            pass
                        g = g + [(ce, True, s)]
                walk(s.body, g, loops)
            elif isinstance(s, ast.For):
                walk(s.body, guards, loops + [s])
            elif isinstance(s, ast.If):
                walk(s.body, guards, loops)
                walk(s.orelse, guards, loops)
            elif isinstance(s, ast.Expr) and isinstance(s.value, ast.Call):
                c = s.value
                f = c.func
                if isinstance(f, ast.Attribute) and f.attr == "exit":
                    out.append(Event("exit", c, guards, loops,
                                     code=c.args[0] if c.args else None))
                elif isinstance(f, ast.Attribute) and f.attr == "call":
                    out.append(Event("helper", c, guards, loops,
                                     func=c.args[0] if c.args else None))
                else:
                    out.append(Event("call", c, guards, loops))
            elif isinstance(s, ast.Assign):
                for t in s.targets:
                    out.append(Event("store", s, guards, loops, target=t,
                                     value=s.value))
            elif isinstance(s, ast.AugAssign):
                out.append(Event("iadd", s, guards, loops, target=s.target,
                                 value=s.value, op=s.op))
            elif isinstance(s, (ast.Return, ast.Pass)):
                pass
    body = func.body
    walk(body, [], [])
    return out
