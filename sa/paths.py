"""E3b - structured path enumeration with constant ("mode variable")
propagation.

The CFG of sa/cfg.py answers reachability questions; this module answers
"what is emitted on the paths where X holds": it enumerates the paths
through a function's statement tree, keeps the locals that hold simple
constants (True/False/None, numbers, strings, dotted names such as
Opcode.STX) in an environment, decides the branch conditions that depend
only on those, forks on all others (recording which way it went as a
fact) and hands every simple statement to a callback together with the
environment and facts under which it runs.  `opcode = Opcode.STX ...
opcode = Opcode.XADD ... if opcode == Opcode.STX` and `atomic = False ...
atomic = True ... if not atomic` are the same thing to a rule built on it.

Loops are entered zero or one time, exception handlers start from the state
at the `try` (anything in the body may have raised), `finally` bodies are
appended.  Nothing is executed; conditions are folded over literals only.
"""
import ast

from .index import AnalysisError, FUNC, unparse

_UNDEF = object()


def is_simple_const(node):
    if isinstance(node, ast.Constant):
        return True
    if isinstance(node, ast.UnaryOp) and isinstance(
            node.op, (ast.USub, ast.Not)) and isinstance(
                node.operand, ast.Constant):
        return True
    n = node
    while isinstance(n, ast.Attribute):
        n = n.value
    # a dotted name rooted in a capitalised (module-level) name: an enum
    # member or class constant
    return isinstance(node, ast.Attribute) and isinstance(n, ast.Name) \
        and n.id[:1].isupper()


class _Subst(ast.NodeTransformer):
    def __init__(self, env):
        self.env = env

    def visit_Name(self, node):
        if isinstance(node.ctx, ast.Load) and node.id in self.env:
            v = self.env[node.id]
            if v is not None:
                return v
        return node


def substitute(expr, env):
    """expr with the mode variables replaced by their constants, then
    simplified (IfExp / BoolOp / not / == over constants)"""
    from .match import clone
    e = _Subst(env).visit(clone(expr))
    return simplify(e)


def _truth(node):
    """True / False / None (unknown) of a simplified expression"""
    if isinstance(node, ast.Constant):
        return bool(node.value)
    if isinstance(node, ast.UnaryOp) and isinstance(node.op, ast.Not):
        v = _truth(node.operand)
        return None if v is None else not v
    if isinstance(node, ast.BoolOp):
        vs = [_truth(v) for v in node.values]
        if isinstance(node.op, ast.And):
            if any(v is False for v in vs):
                return False
            return True if all(v is True for v in vs) else None
        if any(v is True for v in vs):
            return True
        return False if all(v is False for v in vs) else None
    return None


def _const_key(node):
    if isinstance(node, ast.Constant):
        return ("c", type(node.value).__name__, node.value)
    if is_simple_const(node):
        return ("n", unparse(node))
    return None


def simplify(e):
    if isinstance(e, ast.IfExp):
        t = simplify(e.test)
        v = _truth(t)
        if v is True:
            return simplify(e.body)
        if v is False:
            return simplify(e.orelse)
        return ast.copy_location(ast.IfExp(test=t, body=simplify(e.body),
                                           orelse=simplify(e.orelse)), e)
    if isinstance(e, ast.UnaryOp) and isinstance(e.op, ast.Not):
        o = simplify(e.operand)
        v = _truth(o)
        if v is not None:
            return ast.copy_location(ast.Constant(value=not v), e)
        return ast.copy_location(ast.UnaryOp(op=ast.Not(), operand=o), e)
    if isinstance(e, ast.BoolOp):
        vals = [simplify(v) for v in e.values]
        # operands that cannot decide (true in `and`, false in `or`) go,
        # unless they are the value of the whole expression
        neutral = isinstance(e.op, ast.And)
        keep = [v for i, v in enumerate(vals)
                if _truth(v) is not neutral or i == len(vals) - 1]
        if len(keep) == 1:
            return keep[0]
        return ast.copy_location(ast.BoolOp(op=e.op, values=keep), e)
    if isinstance(e, ast.Compare) and len(e.ops) == 1:
        a, b = simplify(e.left), simplify(e.comparators[0])
        ka, kb = _const_key(a), _const_key(b)
        if ka is not None and kb is not None and isinstance(
                e.ops[0], (ast.Eq, ast.NotEq, ast.Is, ast.IsNot)):
            same = ka == kb
            if ka[0] != kb[0]:
                same = False
            neg = isinstance(e.ops[0], (ast.NotEq, ast.IsNot))
            return ast.copy_location(ast.Constant(value=same != neg), e)
        return ast.copy_location(ast.Compare(left=a, ops=e.ops,
                                             comparators=[b]), e)
    for fld, val in ast.iter_fields(e):
        if isinstance(val, ast.expr):
            setattr(e, fld, simplify(val))
        elif isinstance(val, list):
            setattr(e, fld, [simplify(v) if isinstance(v, ast.expr) else v
                             for v in val])
    return e


class Path:
    __slots__ = ("env", "facts", "events", "end")

    def __init__(self, env=None, facts=(), events=()):
        self.env = dict(env or {})
        self.facts = list(facts)
        self.events = list(events)
        self.end = None

    def fork(self):
        p = Path(self.env, self.facts, self.events)
        return p

    def fact(self, pattern, truth=True):
        """was the condition `pattern` taken with this truth on the path"""
        from .match import match
        for e, t in self.facts:
            if t == truth and match(pattern, e) is not None:
                return True
        return False


class _Leave(Exception):
    pass


def explore(func, on_stmt=None, limit=20000, env=None, fact_events=False):
    """all paths through `func` (a FunctionDef or a list of statements).
    on_stmt(stmt, path) is called for every simple statement and every
    compound head (the If/While test, the For iter, the With item), in
    execution order; whatever it returns (not None) is appended to
    path.events.  Returns the list of finished paths; path.end is
    'return' / 'raise' / 'fall'."""
    body = func.body if isinstance(func, FUNC) else list(func)
    count = [0]

    def note(node, p):
        if on_stmt is not None:
            r = on_stmt(node, p)
            if r is not None:
                p.events.append(r)

    def kill(p, names):
        for n in names:
            p.env.pop(n, None)

    def stores(node):
        return [x.id for x in ast.walk(node) if isinstance(x, ast.Name)
                and isinstance(x.ctx, (ast.Store, ast.Del))]

    def run(stmts, paths):
        """-> list of (path, status) status in fall/return/raise/break/
        continue"""
        live = [(p, "fall") for p in paths]
        for st in stmts:
            nxt = []
            for p, status in live:
                if status != "fall":
                    nxt.append((p, status))
                    continue
                nxt.extend(step(st, p))
            live = nxt
            count[0] += len(live)
            if len(live) > limit:
                raise AnalysisError(
                    f"path enumeration: more than {limit} paths")
        return live

    def branch(test, p):
        """-> [(path, truth)]"""
        t = substitute(test, p.env)
        v = _truth(t)
        if v is not None:
            return [(p, v)]
        q = p.fork()
        p.facts.append((t, True))
        q.facts.append((t, False))
        if fact_events:
            # where on the path the condition was decided
            p.events.append(("fact", t, True))
            q.events.append(("fact", t, False))
        return [(p, True), (q, False)]

    def step(st, p):
        if isinstance(st, ast.Assign):
            note(st, p)
            if len(st.targets) == 1 and isinstance(st.targets[0], ast.Name):
                v = substitute(st.value, p.env)
                if is_simple_const(v):
                    p.env[st.targets[0].id] = v
                else:
                    p.env.pop(st.targets[0].id, None)
            elif len(st.targets) == 1 and isinstance(
                    st.targets[0], ast.Tuple) and isinstance(
                        st.value, ast.Tuple) and len(
                            st.targets[0].elts) == len(st.value.elts) and all(
                                isinstance(t, ast.Name)
                                for t in st.targets[0].elts):
                # a, b = x, y: the right side is evaluated first
                vals = [substitute(v, p.env) for v in st.value.elts]
                for t, v in zip(st.targets[0].elts, vals):
                    if is_simple_const(v):
                        p.env[t.id] = v
                    else:
                        p.env.pop(t.id, None)
            else:
                for t in st.targets:
                    kill(p, stores(t))
            return [(p, "fall")]
        if isinstance(st, (ast.AugAssign, ast.AnnAssign, ast.Delete)):
            note(st, p)
            kill(p, stores(st))
            return [(p, "fall")]
        if isinstance(st, (ast.Expr, ast.Pass, ast.Assert, ast.Import,
                           ast.ImportFrom, ast.Global, ast.Nonlocal)):
            note(st, p)
            for x in ast.walk(st):
                if isinstance(x, ast.NamedExpr):
                    kill(p, stores(x.target))
            return [(p, "fall")]
        if isinstance(st, ast.Return):
            note(st, p)
            return [(p, "return")]
        if isinstance(st, ast.Raise):
            note(st, p)
            return [(p, "raise")]
        if isinstance(st, ast.Break):
            return [(p, "break")]
        if isinstance(st, ast.Continue):
            return [(p, "continue")]
        if isinstance(st, FUNC + (ast.ClassDef,)):
            kill(p, [st.name])
            return [(p, "fall")]
        if isinstance(st, ast.If):
            note(st.test, p)
            out = []
            for q, truth in branch(st.test, p):
                out.extend(run(st.body if truth else st.orelse, [q]))
            return out
        if isinstance(st, (ast.With, ast.AsyncWith)):
            for it in st.items:
                note(it, p)
                if it.optional_vars is not None:
                    kill(p, stores(it.optional_vars))
            return run(st.body, [p])
        if isinstance(st, (ast.For, ast.AsyncFor, ast.While)):
            head = st.iter if not isinstance(st, ast.While) else st.test
            note(head, p)
            assigned = set()
            for x in st.body:
                assigned.update(stores(x))
            if not isinstance(st, ast.While):
                assigned.update(stores(st.target))
            out = []
            if isinstance(st, ast.While):
                alts = branch(st.test, p)
            else:
                q = p.fork()
                alts = [(p, True), (q, False)]
            for q, truth in alts:
                if not truth:
                    out.extend(run(st.orelse, [q]))
                    continue
                kill(q, assigned)
                for r, status in run(st.body, [q]):
                    # whatever the body set may have been set any number
                    # of times: mode variables assigned in it are unknown
                    # afterwards unless the iteration left the loop
                    if status in ("fall", "continue"):
                        kill(r, [n for n in assigned
                                 if n not in r.env])
                        out.extend(run(st.orelse, [r]))
                    elif status == "break":
                        out.append((r, "fall"))
                    else:
                        out.append((r, status))
            return out
        if isinstance(st, ast.Try):
            entry = p.fork()
            out = []
            body = run(st.body, [p])
            for q, status in body:
                if status == "fall":
                    out.extend(run(st.orelse, [q]))
                else:
                    out.append((q, status))
            for h in st.handlers:
                q = entry.fork()
                q.facts.append((h.type or ast.Constant(value="except"),
                                True))
                assigned = set()
                for x in st.body:
                    assigned.update(stores(x))
                kill(q, assigned)
                if h.name:
                    kill(q, [h.name])
                out.extend(run(h.body, [q]))
            if st.finalbody:
                fin = []
                for q, status in out:
                    for r, s2 in run(st.finalbody, [q]):
                        fin.append((r, status if s2 == "fall" else s2))
                out = fin
            return out
        if isinstance(st, ast.Match):
            out = []
            for c in st.cases:
                q = p.fork()
                out.extend(run(c.body, [q]))
            return out
        note(st, p)
        return [(p, "fall")]

    res = []
    for p, status in run(body, [Path(env)]):
        p.end = status
        res.append(p)
    return res
