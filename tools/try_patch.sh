#!/bin/sh
# try_patch.sh <patch.diff> <PROP>... [-R]: run checks against a scratch copy of /repo with the patch applied
# prints one line per property: <prop> exit=<rc>; scratch copy removed afterwards
patch="$1"; shift
rev=""
d=$(mktemp -d /tmp/sa-scratch.XXXXXX)
cp -r /repo/ebpfcat "$d/ebpfcat"
find "$d" -name __pycache__ -prune -exec rm -rf {} +
props=""
for a in "$@"; do if [ "$a" = "-R" ]; then rev="-R"; else props="$props $a"; fi; done
if ! (cd "$d" && git apply $rev "$patch" 2>"$d/err"); then echo "PATCH-FAILED $(cat $d/err | head -2)"; rm -rf "$d"; exit 3; fi
for p in $props; do
  out=$(cd /verif && /venv/bin/python -m sa.check "$p" --root "$d" --evidence-dir "$d/ev" 2>&1); rc=$?
  echo "$p exit=$rc"
  echo "$out" | grep -E "VIOLATION|ANALYSIS-ERROR|^ebpfcat/.*R[0-9]" | sed "s#$d/##" | head -${LINES_MAX:-6}
done
rm -rf "$d"
