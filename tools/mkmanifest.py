#!/usr/bin/env python3
"""Rebuild /verif/MANIFEST.json from sa/claims.py (claimed checks) and the
not_applicable table; validates against the schema when jsonschema is there."""
import json, os, sys
sys.path.insert(0, os.path.dirname(os.path.dirname(os.path.abspath(__file__))))
from sa.claims import CLAIMS, NOT_APPLICABLE, NOTES
props = [json.loads(l)["id"] for l in open("/verif/properties.jsonl")]
m = {
 "version": 1,
 "setup_cmd": "true",
 "hooks": {
  "guard": "EBPFCAT_VERIF",
  "enable": "no hooks needed: the checks parse /repo's source with the ast module and never import or run it",
  "baseline_off_cmd": "cd /repo && /venv/bin/python -m pytest -ra -q -p no:cacheprovider --timeout=900 --continue-on-collection-errors",
  "source_commits": [],
  "add_only": True,
 },
 "engines": [{"name": "sa", "path": "sa/", "serves_properties": sorted(CLAIMS),
              "kind_free_text": "repository-specific static analysis on the Python ast: class/MRO index, "
              "constant folder and finite-domain tabulator, statement CFG with exceptional edges, "
              "reaching definitions, call resolution, structural pattern matching"}],
 "checks": [], "notes": NOTES, "not_applicable": [],
}
for p in props:
    if p in CLAIMS:
        c = CLAIMS[p]
        m["checks"].append({
            "property_id": p,
            "quick_cmd": f"./check {p} --tier quick",
            "thorough_cmd": f"./check {p} --tier thorough",
            "evidence_file": f"/verif/evidence/{p}.json",
            "replay_cmd_template": f"./check {p} --replay {{path}}",
            "engine": "sa",
            "level_claimed": {"category": "other", "text": c["level"], "design_ref": c["design_ref"]},
            "level_note": c["note"],
            "technique": c["technique"],
        })
    else:
        m["not_applicable"].append({"property_id": p, "reason": NOT_APPLICABLE.get(
            p, "check under construction (not claimed yet)")})
json.dump(m, open("/verif/MANIFEST.json", "w"), indent=1)
try:
    import jsonschema
    jsonschema.validate(m, json.load(open("/root/.vp/MANIFEST.schema.json")))
    print("MANIFEST.json valid;", len(m["checks"]), "checks,", len(m["not_applicable"]), "not applicable")
except ImportError:
    print("MANIFEST.json written (jsonschema not available for validation)")
