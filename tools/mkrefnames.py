#!/usr/bin/env python3
"""mkrefnames.py: write sa/refnames.json from the current /repo tree.

For every function of the production modules: its local variables in order
of first binding.  sa/normalize.py uses the table to recover the spelling
the rules were written against when a local has been renamed (naming only;
no verdict depends on it).  Re-run after a `fix:` commit that adds, removes
or re-orders locals of a function."""
import ast
import json
import os
import sys

sys.path.insert(0, os.path.dirname(os.path.dirname(os.path.abspath(__file__))))
from sa import normalize  # noqa: E402

root = sys.argv[1] if len(sys.argv) > 1 else "/repo"
out = {"locals": {}, "functions": [], "module_names": {}, "class_attrs": {},
       "fingerprints": {}}
pkg = os.path.join(root, "ebpfcat")
for dp, dn, fn in sorted(os.walk(pkg)):
    dn[:] = sorted(d for d in dn if d != "__pycache__")
    for f in sorted(fn):
        if not f.endswith(".py") or f.endswith("_test.py") or f == "testdata.py":
            continue
        path = os.path.join(dp, f)
        mod = os.path.relpath(path, root)[:-3].replace(os.sep, ".")
        if mod.endswith(".__init__"):
            mod = mod[:-9]
        tree = ast.parse(open(path, encoding="utf8").read())
        normalize.strip_noise(tree)
        normalize.lower_match(tree)
        normalize.hoist_walrus(tree)
        normalize.split_divmod(tree)
        normalize.inline_with_walrus(tree)
        normalize.canon_shapes(tree)
        normalize.rotate_loops(tree)
        normalize.unwrap_genexp_loops(tree)
        normalize.canon_flow(tree)
        normalize.canon_shapes(tree)
        normalize.fold_constants(tree)
        names = set()
        for st in tree.body:
            if isinstance(st, (ast.FunctionDef, ast.AsyncFunctionDef,
                               ast.ClassDef)):
                names.add(st.name)
            elif isinstance(st, (ast.Assign, ast.AnnAssign, ast.AugAssign)):
                for t in (st.targets if isinstance(st, ast.Assign)
                          else [st.target]):
                    for x in ast.walk(t):
                        if isinstance(x, ast.Name):
                            names.add(x.id)
        out["module_names"][mod] = sorted(names)

        def classes(node, prefix):
            for c in ast.iter_child_nodes(node):
                if isinstance(c, ast.ClassDef):
                    q = prefix + "." + c.name
                    attrs = set()
                    for st in c.body:
                        if isinstance(st, (ast.FunctionDef,
                                           ast.AsyncFunctionDef,
                                           ast.ClassDef)):
                            attrs.add(st.name)
                        elif isinstance(st, (ast.Assign, ast.AnnAssign)):
                            for t in (st.targets if isinstance(
                                    st, ast.Assign) else [st.target]):
                                for x in ast.walk(t):
                                    if isinstance(x, ast.Name):
                                        attrs.add(x.id)
                    out["class_attrs"][q] = sorted(attrs)
                    classes(c, q)
                elif isinstance(c, (ast.FunctionDef, ast.AsyncFunctionDef)):
                    classes(c, prefix + "." + c.name)
                else:
                    classes(c, prefix)
        classes(tree, mod)
        for q, func in normalize.function_table(tree, mod).items():
            out["functions"].append(q)
            names = normalize.local_order(func)
            if names:
                out["locals"][q] = names
                out["fingerprints"][q] = normalize.local_fingerprints(func)
out["functions"].sort()
import hashlib
h = hashlib.sha1()
for dp, dn, fn in sorted(os.walk(pkg)):
    dn[:] = sorted(d for d in dn if d != "__pycache__")
    for f in sorted(fn):
        if f.endswith(".py") and not f.endswith("_test.py") \
                and f != "testdata.py":
            h.update(f.encode())
            h.update(open(os.path.join(dp, f), "rb").read())
out["source_digest"] = h.hexdigest()
dst = os.path.join(os.path.dirname(os.path.dirname(os.path.abspath(__file__))),
                   "sa", "refnames.json")
json.dump(out, open(dst, "w"), indent=0, sort_keys=True)
print(f"{len(out['functions'])} functions, {len(out['locals'])} with locals "
      f"-> {dst}")
