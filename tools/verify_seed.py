#!/usr/bin/env python3
"""verify_seed.py <out_dir> ... : confirm sub-agent mutants in a scratch worktree and
copy the confirmed ones to /verif/seeded/<PROP>-<mk>/ (patch.diff, demo.py, meta.json).
Confirmed = demo exits 0 on the clean tree, non-zero with the patch, patch applies,
and the 44 baseline tests still pass with the patch."""
import json, os, shutil, subprocess, sys
WT = "/tmp/wt/verify"
def sh(cmd, **kw):
    return subprocess.run(cmd, shell=True, capture_output=True, text=True, **kw)
if not os.path.isdir(WT):
    r = sh(f"git -C /repo worktree add -q --detach {WT} HEAD"); assert r.returncode == 0, r.stderr
head = sh("git -C /repo rev-parse HEAD").stdout.strip()
sh(f"git -C {WT} checkout -q --detach {head}")
for out in sys.argv[1:]:
    for mk in sorted(os.listdir(out)):
        d = os.path.join(out, mk)
        if not (os.path.isdir(d) and os.path.exists(os.path.join(d, "patch.diff"))):
            continue
        meta = json.load(open(os.path.join(d, "meta.json")))
        prop = meta.get("property")
        sh(f"git -C {WT} checkout -q -- . && git -C {WT} clean -fdq")
        res = {}
        r = sh(f"timeout 120 /venv/bin/python {d}/demo.py {WT}", cwd="/tmp")
        res["demo_clean_rc"] = r.returncode
        r = sh(f"git -C {WT} apply {d}/patch.diff")
        res["apply_rc"] = r.returncode
        r = sh(f"timeout 120 /venv/bin/python {d}/demo.py {WT}", cwd="/tmp")
        res["demo_patched_rc"] = r.returncode
        res["demo_patched_msg"] = (r.stdout + r.stderr).strip().splitlines()[-1][:300] if (r.stdout + r.stderr).strip() else ""
        r = sh(f"python3 /verif/tools/baseline.py {WT}")
        res["baseline_with_patch"] = [l for l in r.stdout.splitlines() if l.startswith("baseline")][0] if r.stdout else r.stderr[-200:]
        res["baseline_rc"] = r.returncode
        sh(f"git -C {WT} checkout -q -- . && git -C {WT} clean -fdq")
        ok = res["demo_clean_rc"] == 0 and res["apply_rc"] == 0 and res["demo_patched_rc"] not in (0, 124) and res["baseline_rc"] == 0
        print(prop, mk, "CONFIRMED" if ok else "REJECTED", res)
        if ok:
            dst = f"/verif/seeded/{prop}-{mk}"
            os.makedirs(dst, exist_ok=True)
            shutil.copy(os.path.join(d, "patch.diff"), dst)
            shutil.copy(os.path.join(d, "demo.py"), dst)
            meta["base_commit"] = head
            meta["confirmed_by_me"] = {
                "what_i_ran": [f"demo.py on clean worktree of {head[:7]} -> exit {res['demo_clean_rc']}",
                               f"git apply patch.diff -> exit {res['apply_rc']}",
                               f"demo.py with patch -> exit {res['demo_patched_rc']}: {res['demo_patched_msg']}",
                               f"tools/baseline.py with patch -> {res['baseline_with_patch']}"]}
            json.dump(meta, open(os.path.join(dst, "meta.json"), "w"), indent=1)
