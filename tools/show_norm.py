#!/usr/bin/env python3
"""show_norm.py <patch.diff|-> <qualname>: print a function as the rules see
it (after normalisation), on /repo with the patch applied"""
import ast, os, shutil, subprocess, sys, tempfile
sys.path.insert(0, os.path.dirname(os.path.dirname(os.path.abspath(__file__))))
from sa.index import Repo
d = tempfile.mkdtemp()
try:
    shutil.copytree("/repo/ebpfcat", d + "/ebpfcat")
    if sys.argv[1] != "-":
        subprocess.run(["git", "apply", os.path.abspath(sys.argv[1])], cwd=d, check=True)
    repo = Repo(d)
    for q in sys.argv[2:]:
        print(ast.unparse(repo.get(q)))
        mod = repo.get(q)._module
        print("#", {k: v for k, v in mod.normalized.items() if v})
finally:
    shutil.rmtree(d)
