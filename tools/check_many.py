#!/usr/bin/env python3
"""check_many.py <root> [PROP ...]: run several checks on one tree in one
process (one parse of the tree); prints `PROP rc first-line` per check.
A tool for the corpus runners - the registered commands run one check each."""
import importlib
import io
import json
import os
import sys
import contextlib

VERIF = os.path.dirname(os.path.dirname(os.path.abspath(__file__)))
sys.path.insert(0, VERIF)
from sa.index import AnalysisError, Repo  # noqa: E402
from sa.report import Check  # noqa: E402
from sa import check as _check  # noqa: E402


def main():
    root = sys.argv[1]
    props = sys.argv[2:] or [c["property_id"] for c in json.load(open(
        os.path.join(VERIF, "MANIFEST.json")))["checks"]]
    out = {}
    for p in props:
        buf = io.StringIO()
        try:
            with contextlib.redirect_stdout(buf):
                rc = _check.run(p, "quick", root, os.path.join(root, "ev"))
        except AnalysisError as e:
            rc = 2
            buf.write(f"ANALYSIS-ERROR property={p}: {e}\n")
        except Exception as e:      # internal error
            rc = 2
            buf.write(f"ANALYSIS-ERROR property={p}: internal error {e!r}\n")
        lines = [l for l in buf.getvalue().splitlines()
                 if ("ANALYSIS" in l or " R" in l[:70]) and
                 "VIOLATION" not in l and "KNOWN" not in l
                 and not l.startswith("[")]
        out[p] = (rc, [l[:260] for l in lines[:3]])
    print(json.dumps(out))


if __name__ == "__main__":
    main()
