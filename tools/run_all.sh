#!/bin/sh
# run_all.sh [tier]: every claimed check on /repo; prints one line per check that is not a clean exit 0
cd "$(dirname "$0")/.." || exit 2
tier=${1:-quick}
bad=0
for p in $(python3 -c "import json;print(' '.join(c['property_id'] for c in json.load(open('MANIFEST.json'))['checks']))"); do
  out=$(./check $p --tier $tier 2>&1); rc=$?
  if [ $rc -ne 0 ]; then bad=1; echo "$p exit=$rc"; echo "$out" | grep -E "VIOLATION|ANALYSIS|R[0-9][0-9]\." | head -8; fi
done
[ $bad -eq 0 ] && echo "all checks exit 0 ($tier)"
exit $bad
