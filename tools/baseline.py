#!/usr/bin/env python3
"""Run the repository's pinned baseline (guard off) and compare with BASELINE.json.
Usage: baseline.py [repo_dir]   exit 0 iff every stable_pass test passes."""
import json, os, subprocess, sys, tempfile, xml.etree.ElementTree as ET
repo = sys.argv[1] if len(sys.argv) > 1 else "/repo"
base = json.load(open("/root/.vp/BASELINE.json"))
with tempfile.TemporaryDirectory() as d:
    x = os.path.join(d, "j.xml")
    env = dict(os.environ); env.pop("EBPFCAT_VERIF", None)
    subprocess.run(["/venv/bin/python", "-m", "pytest", "-q", "-p", "no:cacheprovider",
                    "--timeout=900", "--continue-on-collection-errors", "--junitxml=" + x],
                   cwd=repo, env=env, stdout=subprocess.DEVNULL, stderr=subprocess.DEVNULL)
    ok = set()
    for tc in ET.parse(x).getroot().iter("testcase"):
        if not any(c.tag in ("failure", "error", "skipped") for c in tc):
            ok.add(f"{tc.get('classname')}::{tc.get('name')}")
missing = [t for t in base["stable_pass"] if t not in ok]
print(f"baseline: {len(base['stable_pass']) - len(missing)}/{len(base['stable_pass'])} stable tests pass")
for m in missing:
    print("MISSING", m)
sys.exit(1 if missing else 0)
