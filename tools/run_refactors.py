#!/usr/bin/env python3
"""run_refactors.py [--src DIR] [--tests] [ID ...]: run every check against
behaviour-preserving refactorings (patch.diff under DIR/<id>/, default
/verif/neutral).  Every check must stay silent (exit 0); prints the checks
that raise an alarm (exit 1) or give up (exit 2) per refactoring."""
import concurrent.futures as cf
import json
import os
import shutil
import subprocess
import sys
import tempfile

VERIF = os.path.dirname(os.path.dirname(os.path.abspath(__file__)))
PY = "/venv/bin/python" if os.path.exists("/venv/bin/python") else sys.executable


def checks():
    m = json.load(open(os.path.join(VERIF, "MANIFEST.json")))
    return [c["property_id"] for c in m["checks"]]


def one(src, rid, props, tests):
    tmp = tempfile.mkdtemp(prefix="sa-refactor.")
    try:
        shutil.copytree("/repo/ebpfcat", os.path.join(tmp, "ebpfcat"),
                        ignore=shutil.ignore_patterns("__pycache__"))
        r = subprocess.run(["git", "apply", os.path.join(src, rid,
                                                         "patch.diff")],
                           cwd=tmp, capture_output=True, text=True)
        if r.returncode:
            return rid, {"patch": "FAILED " + r.stderr[:200]}
        res = {}
        if tests:
            for f in ("setup.cfg", "pyproject.toml", "setup.py", "conf.py"):
                if os.path.exists(os.path.join("/repo", f)):
                    shutil.copy(os.path.join("/repo", f), tmp)
            t = subprocess.run([sys.executable, os.path.join(
                VERIF, "tools", "baseline.py"), tmp], capture_output=True,
                text=True)
            res["tests"] = "ok" if t.returncode == 0 else t.stdout[-300:]
        r = subprocess.run([PY, os.path.join(VERIF, "tools",
                                             "check_many.py"), tmp] + props,
                           cwd=VERIF, capture_output=True, text=True)
        try:
            allres = json.loads(r.stdout.strip().splitlines()[-1])
        except Exception:
            allres = {p: (2, [r.stderr[-200:]]) for p in props}
        for p, (rc, lines) in allres.items():
            if rc != 0:
                res[p] = (rc, lines)
        return rid, res
    finally:
        shutil.rmtree(tmp, ignore_errors=True)


def main():
    args = sys.argv[1:]
    src = os.path.join(VERIF, "neutral")
    tests = False
    ids = []
    i = 0
    while i < len(args):
        if args[i] == "--src":
            src = args[i + 1]
            i += 2
        elif args[i] == "--tests":
            tests = True
            i += 1
        else:
            ids.append(args[i])
            i += 1
    all_ids = sorted(d for d in os.listdir(src) if os.path.exists(
        os.path.join(src, d, "patch.diff")))
    if ids:
        all_ids = [d for d in all_ids if d in ids or d.split("-")[0] in ids]
    props = checks()
    total = 0
    with cf.ProcessPoolExecutor(max_workers=16) as ex:
        jobs = [ex.submit(one, src, rid, props, tests) for rid in all_ids]
        for j in jobs:
            rid, res = j.result()
            alarms = {k: v for k, v in res.items() if k not in ("tests",
                                                                "patch")}
            total += len(alarms)
            print(f"{rid}: tests={res.get('tests')} "
                  f"{res.get('patch', '')} alarms="
                  f"{[(k, v[0]) for k, v in alarms.items()]}")
            for k, v in alarms.items():
                for l in v[1]:
                    print(f"    {k}: {l}")
    print(f"{total} alarms on {len(all_ids)} refactorings")
    return 1 if total else 0


if __name__ == "__main__":
    sys.exit(main())
