#!/usr/bin/env python3
"""run_neutral.py [--kinds a,b] [--seeds N] [--no-tests] [PROP ...]

Generate behaviour-preserving variants of /repo (tools/neutral.py), confirm
with the repository's own baseline tests that they still behave, and run
the checks on them: every check must stay silent (exit 0).  Prints the
checks that raise an alarm (exit 1) or give up (exit 2) per variant."""
import concurrent.futures as cf
import json
import os
import shutil
import subprocess
import sys
import tempfile

VERIF = os.path.dirname(os.path.dirname(os.path.abspath(__file__)))
PY = "/venv/bin/python"


def checks():
    m = json.load(open(os.path.join(VERIF, "MANIFEST.json")))
    return [c["property_id"] for c in m["checks"]]


def one(kind, seed, props, tests):
    tmp = tempfile.mkdtemp(prefix="sa-neutral.")
    try:
        r = subprocess.run([sys.executable, os.path.join(
            VERIF, "tools", "neutral.py"), kind, str(seed), tmp],
            capture_output=True, text=True)
        if r.returncode:
            return kind, seed, {"gen": r.stderr[-300:]}
        res = {}
        if tests:
            for f in ("setup.cfg", "pyproject.toml", "setup.py", "conf.py"):
                if os.path.exists(os.path.join("/repo", f)):
                    shutil.copy(os.path.join("/repo", f), tmp)
            t = subprocess.run([sys.executable, os.path.join(
                VERIF, "tools", "baseline.py"), tmp], capture_output=True,
                text=True)
            res["tests"] = "ok" if t.returncode == 0 else t.stdout[-300:]
        for p in props:
            r = subprocess.run([PY, "-m", "sa.check", p, "--root", tmp,
                                "--evidence-dir", os.path.join(tmp, "ev")],
                               cwd=VERIF, capture_output=True, text=True)
            if r.returncode != 0:
                lines = [l for l in r.stdout.splitlines()
                         if ("ANALYSIS" in l or " R" in l[:70]) and
                         "VIOLATION" not in l and "KNOWN" not in l
                         and not l.startswith("[")]
                res[p] = (r.returncode, [l[:230] for l in lines[:3]])
        return kind, seed, res
    finally:
        shutil.rmtree(tmp, ignore_errors=True)


def main():
    args = sys.argv[1:]
    kinds = ["reformat", "rename", "noise", "swapadd", "rename2", "ifswap",
             "augassign", "all"]
    seeds = 3
    tests = True
    props = []
    i = 0
    while i < len(args):
        if args[i] == "--kinds":
            kinds = args[i + 1].split(",")
            i += 2
        elif args[i] == "--seeds":
            seeds = int(args[i + 1])
            i += 2
        elif args[i] == "--no-tests":
            tests = False
            i += 1
        else:
            props.append(args[i])
            i += 1
    props = props or checks()
    jobs = []
    with cf.ProcessPoolExecutor(max_workers=16) as ex:
        for k in kinds:
            for s in range(1 if k == "reformat" else seeds):
                jobs.append(ex.submit(one, k, s, props, tests))
        out = [j.result() for j in jobs]
    bad = 0
    for kind, seed, res in out:
        t = res.pop("tests", None)
        alarms = {p: v for p, v in res.items()}
        print(f"{kind}#{seed}: tests={t} alarms="
              f"{sorted((p, v[0]) for p, v in alarms.items()) if 'gen' not in res else res}")
        for p, v in sorted(alarms.items()):
            if p == "gen":
                continue
            bad += 1
            for l in v[1][:2]:
                print(f"    {p}: {l}")
    print(f"{bad} alarms on neutral variants")
    return 1 if bad else 0


if __name__ == "__main__":
    sys.exit(main())
