#!/usr/bin/env python3
"""neutral.py <kind> <seed> <outdir>: write a behaviour-preserving variant of
/repo/ebpfcat into <outdir>/ebpfcat.

kinds:
  reformat   every module re-generated from its syntax tree (comments gone,
             layout and line numbers changed)
  rename     local variables of functions renamed consistently
  noise      harmless statements inserted at random places of function bodies
  swapadd    operands of commutative integer additions/multiplications by a
             literal swapped
  rename2    every local of every function (also those used by nested
             functions) gets a meaningless new name
  ifswap     `if c: A else: B` becomes `if not c: B else: A`
  augassign  `n += <int literal>` on a plain local becomes `n = n + ...` and
             the other way round
  all        everything at once
"""
import ast
import os
import random
import shutil
import sys

SRC = os.environ.get("EBPFCAT_REPO", "/repo")


def py_files():
    d = os.path.join(SRC, "ebpfcat")
    for dp, dn, fn in os.walk(d):
        dn[:] = [x for x in dn if x != "__pycache__"]
        for f in sorted(fn):
            if f.endswith(".py"):
                yield os.path.join(dp, f)


class ScopeInfo(ast.NodeVisitor):
    """names assigned in a function (its own scope only)"""
    def __init__(self, func):
        self.func = func
        self.assigned = set()
        self.nested_uses = set()
        self.declared = set()
        for a in func.args.posonlyargs + func.args.args + func.args.kwonlyargs:
            self.declared.add(a.arg)
        if func.args.vararg:
            self.declared.add(func.args.vararg.arg)
        if func.args.kwarg:
            self.declared.add(func.args.kwarg.arg)
        for s in func.body:
            self.visit(s)

    def visit_FunctionDef(self, node):
        self.declared.add(node.name)    # bound by the def statement: keep
        for n in ast.walk(node):
            if isinstance(n, ast.Name):
                self.nested_uses.add(n.id)
            elif isinstance(n, ast.arg):
                self.nested_uses.add(n.arg)
    visit_AsyncFunctionDef = visit_FunctionDef

    def visit_Lambda(self, node):
        for n in ast.walk(node):
            if isinstance(n, ast.Name):
                self.nested_uses.add(n.id)

    def visit_ClassDef(self, node):
        self.declared.add(node.name)
        for n in ast.walk(node):
            if isinstance(n, ast.Name):
                self.nested_uses.add(n.id)

    def visit_Global(self, node):
        self.declared.update(node.names)

    def visit_Nonlocal(self, node):
        self.declared.update(node.names)

    def visit_Name(self, node):
        if isinstance(node.ctx, (ast.Store, ast.Del)):
            self.assigned.add(node.id)

    def visit_ExceptHandler(self, node):
        if node.name:
            self.declared.add(node.name)   # keep handler names
        self.generic_visit(node)

    def visit_ListComp(self, node):
        # comprehension targets live in their own scope: leave alone
        for n in ast.walk(node):
            if isinstance(n, ast.Name) and isinstance(n.ctx, ast.Store):
                self.declared.add(n.id)
        self.generic_visit(node)
    visit_SetComp = visit_DictComp = visit_GeneratorExp = visit_ListComp


class Renamer(ast.NodeTransformer):
    def __init__(self, mapping):
        self.mapping = mapping

    def visit_Name(self, node):
        if node.id in self.mapping:
            node.id = self.mapping[node.id]
        return node

    def visit_FunctionDef(self, node):
        return node     # nested scopes are left alone
    visit_AsyncFunctionDef = visit_Lambda = visit_ClassDef = visit_FunctionDef


def rename_locals(tree, rnd):
    for f in [n for n in ast.walk(tree) if isinstance(
            n, (ast.FunctionDef, ast.AsyncFunctionDef))]:
        info = ScopeInfo(f)
        names = sorted(info.assigned - info.declared - info.nested_uses)
        names = [n for n in names if not n.startswith("_")]
        if not names:
            continue
        mapping = {n: n + "_loc" for n in names if rnd.random() < 0.8}
        r = Renamer(mapping)
        f.body = [r.visit(s) for s in f.body]
    return tree


def noise(tree, rnd, has_logging):
    def stmt():
        if has_logging and rnd.random() < 0.7:
            return ast.parse("logging.debug('trace')").body[0]
        return ast.Pass()
    for f in [n for n in ast.walk(tree) if isinstance(
            n, (ast.FunctionDef, ast.AsyncFunctionDef))]:
        blocks = [n for n in ast.walk(f) if hasattr(n, "body") and isinstance(
            n.body, list) and not isinstance(n, (ast.ClassDef, ast.Lambda))]
        for b in blocks:
            for fld in ("body", "orelse", "finalbody"):
                lst = getattr(b, fld, None)
                if not isinstance(lst, list) or not lst:
                    continue
                if isinstance(b, (ast.FunctionDef, ast.AsyncFunctionDef)) \
                        and fld == "body" and isinstance(
                            lst[0], ast.Expr) and isinstance(
                                lst[0].value, ast.Constant):
                    start = 1
                else:
                    start = 0
                i = start
                while i <= len(lst):
                    if rnd.random() < 0.12:
                        # not after a return/raise/continue/break
                        if i > 0 and isinstance(lst[i - 1], (
                                ast.Return, ast.Raise, ast.Continue,
                                ast.Break)):
                            i += 1
                            continue
                        lst.insert(i, stmt())
                        i += 1
                    i += 1
    return tree


class SwapAdd(ast.NodeTransformer):
    def __init__(self, rnd):
        self.rnd = rnd

    def visit_BinOp(self, node):
        self.generic_visit(node)
        if isinstance(node.op, (ast.Add, ast.Mult)) and isinstance(
                node.right, ast.Constant) and isinstance(
                    node.right.value, int) and not isinstance(
                        node.right.value, bool) and isinstance(
                            node.left, (ast.Name, ast.Attribute)) and \
                self.rnd.random() < 0.5:
            # only plain integer contexts: names like size/start/pos/i
            nm = node.left.id if isinstance(node.left, ast.Name) \
                else node.left.attr
            if nm in ("size", "start", "stop", "pos", "i", "position",
                      "offset", "addr", "bitpos"):
                node.left, node.right = node.right, node.left
        return node


def rename2(tree, rnd):
    sys.path.insert(0, os.path.join(os.path.dirname(os.path.abspath(
        __file__)), ".."))
    from sa import normalize
    funcs = [n for n in ast.walk(tree) if isinstance(
        n, (ast.FunctionDef, ast.AsyncFunctionDef))]
    # outer functions first; a nested function's own locals are renamed when
    # its turn comes
    counter = [rnd.randrange(100)]
    for f in funcs:
        names = normalize.local_order(f)
        names = [n for n in names if not n.startswith("__")]
        used = {n.id for n in ast.walk(f) if isinstance(n, ast.Name)} | {
            a.arg for a in ast.walk(f) if isinstance(a, ast.arg)}
        mapping = {}
        for n in names:
            counter[0] += 1
            new = f"v{counter[0]}"
            if new not in used:
                mapping[n] = new
        if mapping:
            r = normalize._Rename(mapping)
            f.body = [r.visit(s) for s in f.body]
    return tree


class IfSwap(ast.NodeTransformer):
    def __init__(self, rnd):
        self.rnd = rnd

    def visit_If(self, node):
        self.generic_visit(node)
        if node.orelse and not (len(node.orelse) == 1 and isinstance(
                node.orelse[0], ast.If)) and self.rnd.random() < 0.6:
            t = node.test
            if isinstance(t, ast.UnaryOp) and isinstance(t.op, ast.Not):
                node.test = t.operand
            else:
                node.test = ast.UnaryOp(op=ast.Not(), operand=t)
            node.body, node.orelse = node.orelse, node.body
        return node


class AugAssign(ast.NodeTransformer):
    def __init__(self, rnd):
        self.rnd = rnd

    def visit_AugAssign(self, node):
        if isinstance(node.target, ast.Name) and isinstance(
                node.op, (ast.Add, ast.Sub)) and isinstance(
                    node.value, ast.Constant) and isinstance(
                        node.value.value, int) and self.rnd.random() < 0.7:
            return ast.Assign(targets=[ast.Name(node.target.id, ast.Store())],
                              value=ast.BinOp(ast.Name(node.target.id,
                                                       ast.Load()),
                                              node.op, node.value))
        return node

    def visit_Assign(self, node):
        if len(node.targets) == 1 and isinstance(
                node.targets[0], ast.Name) and isinstance(
                    node.value, ast.BinOp) and isinstance(
                        node.value.op, (ast.Add, ast.Sub)) and isinstance(
                            node.value.left, ast.Name) and \
                node.value.left.id == node.targets[0].id and isinstance(
                    node.value.right, ast.Constant) and isinstance(
                        node.value.right.value, int) and \
                self.rnd.random() < 0.7:
            return ast.AugAssign(target=node.targets[0], op=node.value.op,
                                 value=node.value.right)
        return node


def main():
    kind, seed, out = sys.argv[1], int(sys.argv[2]), sys.argv[3]
    rnd = random.Random(seed)
    dst = os.path.join(out, "ebpfcat")
    if os.path.exists(dst):
        shutil.rmtree(dst)
    for path in py_files():
        rel = os.path.relpath(path, os.path.join(SRC, "ebpfcat"))
        tgt = os.path.join(dst, rel)
        os.makedirs(os.path.dirname(tgt), exist_ok=True)
        src = open(path, encoding="utf8").read()
        if rel.endswith("_test.py") or rel == "testdata.py":
            open(tgt, "w", encoding="utf8").write(src)
            continue
        tree = ast.parse(src)
        has_logging = any(isinstance(n, ast.Import) and any(
            a.name == "logging" for a in n.names) for n in tree.body)
        if kind in ("rename", "all"):
            tree = rename_locals(tree, rnd)
        if kind in ("noise", "all"):
            tree = noise(tree, rnd, has_logging)
        if kind in ("swapadd", "all"):
            tree = SwapAdd(rnd).visit(tree)
        if kind in ("rename2", "all"):
            tree = rename2(tree, rnd)
        if kind in ("ifswap", "all"):
            tree = IfSwap(rnd).visit(tree)
        if kind in ("augassign", "all"):
            tree = AugAssign(rnd).visit(tree)
        ast.fix_missing_locations(tree)
        open(tgt, "w", encoding="utf8").write(ast.unparse(tree) + "\n")


if __name__ == "__main__":
    main()
