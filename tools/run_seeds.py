#!/usr/bin/env python3
"""run_seeds.py [PROP ...] [--all-checks]: run the checks against every
seeded mutant (scratch copy of /repo/ebpfcat + patch), in parallel.

Prints one line per mutant: which of the checks that were run report a
violation (exit 1), which stay silent (exit 0), which cannot analyse
(exit 2).  --all-checks runs every existing check against every mutant
(default: only the check of the mutant's own property)."""
import concurrent.futures as cf
import json
import os
import shutil
import subprocess
import sys
import tempfile

VERIF = os.path.dirname(os.path.dirname(os.path.abspath(__file__)))
PY = "/venv/bin/python" if os.path.exists("/venv/bin/python") else sys.executable


def existing_checks():
    d = os.path.join(VERIF, "sa", "rules")
    return sorted(f[:-3].upper() for f in os.listdir(d)
                  if f.startswith("c") and f[1:-3].isdigit())


def run_one(seed, props):
    sd = os.path.join(VERIF, "seeded", seed)
    tmp = tempfile.mkdtemp(prefix="sa-seed.")
    try:
        shutil.copytree("/repo/ebpfcat", os.path.join(tmp, "ebpfcat"),
                        ignore=shutil.ignore_patterns("__pycache__"))
        r = subprocess.run(["git", "apply", os.path.join(sd, "patch.diff")],
                           cwd=tmp, capture_output=True, text=True)
        if r.returncode:
            return seed, {"patch": "FAILED " + r.stderr[:100]}
        out = {}
        for p in props:
            r = subprocess.run([PY, "-m", "sa.check", p, "--root", tmp,
                                "--evidence-dir", os.path.join(tmp, "ev")],
                               cwd=VERIF, capture_output=True, text=True)
            lines = [l for l in r.stdout.splitlines() if "VIOLATION" not in l
                     and "KNOWN-FINDING" not in l and not l.startswith("note")
                     and (" R" in l[:60] or "ANALYSIS" in l)]
            out[p] = (r.returncode, [l[:200] for l in lines
                                     if not l.startswith("[")][:2])
        return seed, out
    finally:
        shutil.rmtree(tmp, ignore_errors=True)


def main():
    args = [a for a in sys.argv[1:] if not a.startswith("--")]
    allchecks = "--all-checks" in sys.argv
    verbose = "-v" in sys.argv or "--verbose" in sys.argv
    checks = existing_checks()
    seeds = sorted(d for d in os.listdir(os.path.join(VERIF, "seeded"))
                   if os.path.isdir(os.path.join(VERIF, "seeded", d)))
    if args:
        seeds = [s for s in seeds if s.split("-")[0] in args]
    jobs = []
    with cf.ProcessPoolExecutor(max_workers=16) as ex:
        for s in seeds:
            prop = s.split("-")[0]
            props = checks if allchecks else ([prop] if prop in checks else [])
            jobs.append(ex.submit(run_one, s, props))
        res = dict(j.result() for j in jobs)
    caught = missed = 0
    for s in seeds:
        prop = s.split("-")[0]
        out = res[s]
        if "patch" in out:
            print(f"{s:10} {out['patch']}")
            continue
        if not out:
            print(f"{s:10} (no check for {prop} yet)")
            continue
        own = out.get(prop)
        hit = sorted(p for p, (rc, _) in out.items() if rc == 1)
        err = sorted(p for p, (rc, _) in out.items() if rc == 2)
        status = "CAUGHT" if own and own[0] == 1 else (
            "ERROR " if own and own[0] == 2 else "MISSED")
        if status == "CAUGHT":
            caught += 1
        else:
            missed += 1
        extra = f" also:{','.join(p for p in hit if p != prop)}" \
            if allchecks and len(hit) > (1 if status == "CAUGHT" else 0) \
            else ""
        errs = f" exit2:{','.join(err)}" if err else ""
        msg = ""
        if own and own[1] and (verbose or status != "MISSED"):
            msg = " | " + own[1][0][:150]
        print(f"{s:10} {status}{extra}{errs}{msg}")
    print(f"caught {caught}, not caught {missed} (of {caught + missed} with "
          f"a check)")


if __name__ == "__main__":
    main()
